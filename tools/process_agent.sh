#!/bin/bash
# usage: tools/process_agent.sh Cxx   -> import, confirm and detect the A/B deliveries of a seeding sub-agent
cd "$(dirname "$0")/.." || exit 2
ID=$1
for L in A B; do
  if [ -f /tmp/seed_$ID/_seed/$L.diff ]; then
    /venv/bin/python tools/seeded.py import /tmp/seed_$ID/_seed $L agent-$ID-$L
    /venv/bin/python tools/seeded.py confirm agent-$ID-$L
    /venv/bin/python tools/seeded.py detect agent-$ID-$L
  fi
done 2>&1 | grep -v conda
