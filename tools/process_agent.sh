#!/bin/bash
# usage: tools/process_agent.sh Cxx [round]  -> import, confirm and detect the A/B deliveries of a seeding sub-agent
cd "$(dirname "$0")/.." || exit 2
ID=$1
R=${2:-1}
if [ "$R" = "1" ]; then DIR=/tmp/seed_$ID/_seed; PFX=agent; else DIR=/tmp/seed${R}_$ID/_seed; PFX=agent$R; fi
for L in A B; do
  if [ -f $DIR/$L.diff ]; then
    /venv/bin/python tools/seeded.py import $DIR $L $PFX-$ID-$L
    /venv/bin/python tools/seeded.py confirm $PFX-$ID-$L
    /venv/bin/python tools/seeded.py detect $PFX-$ID-$L
  fi
done 2>&1 | grep -v conda
