#!/usr/bin/env python3
"""Hand-written sensitivity mutants (the ones named in DESIGN.md section 5).

Each entry is (id, property, file, old, new, summary).  `own_mutants.py build`
turns them into seeded/own-<id>/patch.diff + meta.json (in a scratch worktree,
never in /repo); `tools/seeded.py detect own-<id>` then runs the check.
`own_mutants.py suite` records for each whether the repository's own suite
stays green (the interesting ones do)."""
import json
import os
import subprocess
import sys

sys.path.insert(0, os.path.dirname(os.path.abspath(__file__)))
from seeded import Scratch, SEEDED, VERIF, sh  # noqa

M = [
 ("c19-scale-two-step", "C19", "src/ecdsa/ellipticcurve.py",
  "        x = x * zz_inv % p\n        y = y * zz_inv * z_inv % p\n        self.__coords = (x, y, 1)\n",
  "        x = x * zz_inv % p\n        self.__coords = (x, y, z)\n        y = y * zz_inv * z_inv % p\n        self.__coords = (x, y, 1)\n",
  "scale() publishes the new x before the new y and z (only an operation cut short between the two stores shows it)"),
 ("c07-table-published-early", "C07", "src/ecdsa/ellipticcurve.py",
  "        precompute.append((doubler.x(), doubler.y()))\n\n        while i < order:\n",
  "        precompute.append((doubler.x(), doubler.y()))\n        self.__precompute = precompute\n\n        while i < order:\n",
  "the lazily built table is published after its first entry (a first use cut short leaves a truncated table)"),
 ("c01-canonize-reflects-r", "C01", "src/ecdsa/util.py",
  "def sigencode_strings_canonize(r, s, order):\n    if s > order // 2:\n        s = order - s\n",
  "def sigencode_strings_canonize(r, s, order):\n    if s > order // 2:\n        r = order - r\n",
  "string-pair low-S encoder reflects r instead of s"),
 ("c01-from_der-drops-hashfunc", "C01", "src/ecdsa/keys.py",
  "        return cls.from_string(point_str, curve, hashfunc=hashfunc)\n",
  "        return cls.from_string(point_str, curve)\n",
  "VerifyingKey.from_der ignores the hashfunc argument (default hash becomes sha1)"),
 ("c02-s-range-off-by-one", "C02", "src/ecdsa/ecdsa.py",
  "        if s < 1 or s > n - 1:\n", "        if s < 1 or s > n:\n",
  "verification lets s == n through the range check (r == n would be an equivalent mutant: x(R) mod n never equals n)"),
 ("c02-no-mod-n", "C02", "src/ecdsa/ecdsa.py",
  "        v = xy.x() % n\n", "        v = xy.x()\n",
  "x(R) is not reduced mod n before comparison (valid signatures with x(R) >= n rejected)"),
 ("c02-infinity-accepted", "C02", "src/ecdsa/ecdsa.py",
  "        if xy == ellipticcurve.INFINITY:\n            return False\n",
  "        if xy == ellipticcurve.INFINITY:\n            return r == n - 1\n",
  "R at infinity is accepted for one value of r"),
 ("c03-truncate-to-bytes", "C03", "src/ecdsa/keys.py",
  "        max_length = bit_length(curve.order)\n", "        max_length = curve.baselen * 8\n",
  "digest truncated to whole bytes of the order instead of bit length (same on both sides)"),
 ("c03-rszero-s-not-checked", "C03", "src/ecdsa/ecdsa.py",
  "        if s == 0:\n            raise RSZeroError(\"amazingly unlucky random number s\")\n",
  "",
  "s == 0 is returned as a signature instead of raising RSZeroError"),
 ("c04-bits2octets-no-wrap", "C04", "src/ecdsa/rfc6979.py",
  "    if z2 < 0:\n        z2 = z1\n", "    z2 = z1\n",
  "bits2octets never subtracts the order (differs when bits2int(h1) >= q)"),
 ("c04-retry-separator", "C04", "src/ecdsa/rfc6979.py",
  "        k = hmac.new(k, v + b\"\\x00\", hash_func).digest()\n        v = hmac.new(k, v, hash_func).digest()\n",
  "        k = hmac.new(k, v + b\"\\x01\", hash_func).digest()\n        v = hmac.new(k, v, hash_func).digest()\n",
  "retry path of the HMAC-DRBG uses separator 0x01"),
 ("c05-secret-padded-to-order", "C05", "src/ecdsa/ecdh.py",
  "            self.generate_sharedsecret(), self.private_key.curve.curve.p()\n",
  "            self.generate_sharedsecret(), self.private_key.curve.order\n",
  "shared secret bytes padded to the order length instead of the field length"),
 ("c05-curve-leg-dropped", "C05", "src/ecdsa/ecdh.py",
  "            self.private_key.curve == self.curve == remote_public_key.curve\n",
  "            self.private_key.curve == remote_public_key.curve\n",
  "agreed curve is no longer compared when computing the secret"),
 ("c06-scale-y-unreduced", "C06", "src/ecdsa/ellipticcurve.py",
  "        y = y * zz_inv * z_inv % p\n        self.__coords = (x, y, 1)\n",
  "        y = y * zz_inv % p * z_inv\n        self.__coords = (x, y, 1)\n",
  "scale() leaves y unreduced"),
 ("c06-z-eq-doubling", "C06", "src/ecdsa/ellipticcurve.py",
  "        if not A and not D:\n            return self._double(X1, Y1, Z1, p, self.__curve.a())\n",
  "        if not A and not D:\n            return self._double_with_z_1(X1, Y1, p, self.__curve.a())\n",
  "equal points with equal Z != 1 are doubled with the Z == 1 formula"),
 ("c06-eq-ignores-y", "C06", "src/ecdsa/ellipticcurve.py",
  "        return (x1 * zz2 - x2 * zz1) % p == 0 and (\n            y1 * zz2 * z2 - y2 * zz1 * z1\n        ) % p == 0\n",
  "        return (x1 * zz2 - x2 * zz1) % p == 0 and (\n            y1 * y1 * zz2 * zz2 * zz2 - y2 * y2 * zz1 * zz1 * zz1\n        ) % p == 0\n",
  "equality compares y^2, so P == -P"),
 # two candidate mutants were dropped as EQUIVALENT (no observable change, correctly not flagged by C07):
 #  - NAF digit test `nd >= 2` -> `nd > 2`: nd = k % 4 is 1 or 3 for odd k, never 2;
 #  - lazy table loop `while i < order` -> `while i * 2 < order`: the loop bound is 4n while scalars are
 #    reduced mod 2n, so the table has one spare entry.
 ("c07-muladd-mApB", "C07", "src/ecdsa/ellipticcurve.py",
  "                    X3, Y3, Z3 = _add(X3, Y3, Z3, mApB_X, mApB_Y, mApB_Z, p)\n",
  "                    X3, Y3, Z3 = _add(X3, Y3, Z3, pAmB_X, pAmB_Y, pAmB_Z, p)\n",
  "mul_add uses +A-B where -A+B is needed"),
 ("c08-y-range-dropped", "C08", "src/ecdsa/ecdsa.py",
  "        if not (0 <= point.x() < p) or not (0 <= point.y() < p):\n",
  "        if not (0 <= point.x() < p) or not (0 <= point.y()):\n",
  "public key y coordinate >= p accepted (alias y + p)"),
 ("c08-hybrid-check-skipped", "C08", "src/ecdsa/keys.py",
  "        if validate_point and (\n            point.y() & 1\n            and string[:1] != b(\"\\x07\")\n",
  "        if validate_point and (\n            point.y() & 1\n            and string[:1] != b(\"\\x07\")\n            and string[:1] != b(\"\\x06\")\n",
  "hybrid encoding with an odd y accepts either parity byte"),
 ("c09-pem-76-columns", "C09", "src/ecdsa/der.py",
  "        [b64[start : start + 64] + b(\"\\n\") for start in range(0, len(b64), 64)]\n",
  "        [b64[start : start + 76] + b(\"\\n\") for start in range(0, len(b64), 76)]\n",
  "PEM body wrapped at 76 columns"),
 ("c09-to_string-crop", "C09", "src/ecdsa/keys.py",
  "        s = number_to_string(secexp, self.privkey.order)\n        return s\n",
  "        s = number_to_string(secexp, self.privkey.order)\n        return s.lstrip(b\"\\x00\") or b\"\\x00\"\n",
  "private key raw string drops leading zero bytes"),
 ("c10-verify-catches-less", "C10", "src/ecdsa/keys.py",
  "        except (der.UnexpectedDER, MalformedSignature) as e:\n",
  "        except der.UnexpectedDER as e:\n",
  "verify_digest no longer maps MalformedSignature to BadSignatureError"),
 ("c11-read_length-nonminimal", "C11", "src/ecdsa/der.py",
  "    if not msb or llen == 1 and msb < 0x80:\n", "    if not msb:\n",
  "read_length accepts 0x81 0x7f (long form for a short length)"),
 ("c11-oid-padding", "C11", "src/ecdsa/der.py",
  "    if str_idx_as_int(string, 0) == 0x80:\n        raise UnexpectedDER(\"Non minimal encoding of OID subidentifier\")\n",
  "",
  "OID sub-identifiers with 0x80 padding accepted"),
 ("c12-der-trailing-junk", "C12", "src/ecdsa/util.py",
  "    if empty != b\"\":\n        raise der.UnexpectedDER(\n            \"trailing junk after DER numbers: %s\" % binascii.hexlify(empty)\n        )\n",
  "",
  "sigdecode_der accepts extra elements after the two integers"),
 ("c13-half-plus-one", "C13", "src/ecdsa/util.py",
  "def sigencode_der_canonize(r, s, order):\n    if s > order // 2:\n",
  "def sigencode_der_canonize(r, s, order):\n    if s > order // 2 + 1:\n",
  "DER low-S encoder keeps s = floor(n/2)+1"),
 ("c14-no-truncation", "C14", "src/ecdsa/keys.py",
  "        digest_as_number = _truncate_and_convert_digest(\n            digest, curve, allow_truncate\n        )\n        pks",
  "        digest_as_number = string_to_number(digest)\n        pks",
  "recovery does not truncate the digest"),
 ("c15-5mod8-branch", "C15", "src/ecdsa/numbertheory.py",
  "        if d == p - 1:\n            return (2 * a * pow(4 * a, (p - 5) // 8, p)) % p\n",
  "        if d == p - 1:\n            return pow(a, (p + 3) // 8, p)\n",
  "square root for p = 5 mod 8 uses the d == 1 formula in both cases"),
 ("c15-jacobi-sign", "C15", "src/ecdsa/numbertheory.py",
  "    if e % 2 == 0 or n % 8 == 1 or n % 8 == 7:\n", "    if e % 2 == 0 or n % 8 == 1 or n % 8 == 5:\n",
  "Jacobi symbol: wrong residue class in the (2/n) rule"),
 ("c16-mr-loop-short", "C16", "src/ecdsa/numbertheory.py",
  "            while j <= s - 1 and y != n - 1:\n", "            while j <= s - 2 and y != n - 1:\n",
  "Miller-Rabin squaring loop one iteration short (rejects some primes)"),
 ("c16-next_prime-even-start", "C16", "src/ecdsa/numbertheory.py",
  "    result = (starting_value + 1) | 1\n", "    result = starting_value | 1\n",
  "next_prime(p) returns p for odd prime p"),
 ("c17-no-plus-one", "C17", "src/ecdsa/util.py",
  "        rand_num = int(ent_2[:upper_2], base=2) + 1\n        if 0 < rand_num < order:\n",
  "        rand_num = int(ent_2[:upper_2], base=2)\n        if 0 < rand_num < order:\n",
  "randrange never returns n-1 ... and the distribution shifts (value n-1 unreachable for some orders)"),
 ("c17-modulo-bias", "C17", "src/ecdsa/util.py",
  "        rand_num = int(ent_2[:upper_2], base=2) + 1\n        if 0 < rand_num < order:\n            return rand_num\n",
  "        rand_num = int(ent_2[:upper_2], base=2) % (order - 1) + 1\n        if 0 < rand_num < order:\n            return rand_num\n",
  "modulo reduction instead of rejection sampling (biased)"),
 ("c18-scale-two-steps", "C18", "src/ecdsa/ellipticcurve.py",
  "        self.__coords = (x, y, 1)\n        return self\n",
  "        self.__coords = (x, self.__coords[1], self.__coords[2])\n        self.__coords = (x, y, 1)\n        return self\n",
  "scale() publishes the coordinates in two assignments"),
 ("c18-table-published-early", "C18", "src/ecdsa/ellipticcurve.py",
  "        precompute = []\n        i = 1\n", "        precompute = self.__precompute\n        i = 1\n",
  "lazy table is filled in place, visible to other threads while partial"),
 ("c19-setstate-drops-order", "C19", "src/ecdsa/ellipticcurve.py",
  "    def __setstate__(self, state):\n        self.__dict__.update(state)\n",
  "    def __setstate__(self, state):\n        self.__dict__.update(state)\n        self.__order = None\n",
  "unpickled points lose their declared order"),
 ("c19-precompute-negates", "C19", "src/ecdsa/keys.py",
  "            point.x(),\n            point.y(),\n            1,\n            point.order() or self.curve.order,\n",
  "            point.x(),\n            -point.y() % point.curve().p(),\n            1,\n            point.order() or self.curve.order,\n",
  "VerifyingKey.precompute() replaces the key's point by its negative"),
 ("c20-lost-release", "C20", "src/ecdsa/_rwlock.py",
  "        self.__read_switch.acquire(self.__no_writers)\n        self.__no_readers.release()\n",
  "        self.__read_switch.acquire(self.__no_writers)\n",
  "reader_acquire forgets to release no_readers"),
 ("c20-lightswitch-off-by-one", "C20", "src/ecdsa/_rwlock.py",
  "        if self.__counter == 0:\n            lock.release()\n", "        if self.__counter == 1:\n            lock.release()\n",
  "light switch releases when one holder is left"),
 ("c20-lightswitch-unprotected", "C20", "src/ecdsa/_rwlock.py",
  "    def acquire(self, lock):\n        self.__mutex.acquire()\n        self.__counter += 1\n        if self.__counter == 1:\n            lock.acquire()\n        self.__mutex.release()\n",
  "    def acquire(self, lock):\n        self.__counter += 1\n        if self.__counter == 1:\n            lock.acquire()\n",
  "light switch counter incremented without its mutex"),
]


def build():
    for mid, prop, path, old, new, summary in M:
        d = os.path.join(SEEDED, "own-" + mid)
        os.makedirs(d, exist_ok=True)
        with Scratch() as s:
            fp = os.path.join(s.dir, path)
            src = open(fp).read()
            if src.count(old) != 1:
                print("SKIP %s: anchor found %d times" % (mid, src.count(old)))
                continue
            open(fp, "w").write(src.replace(old, new))
            diff = sh(["git", "-C", s.dir, "diff"]).stdout
        open(os.path.join(d, "patch.diff"), "w").write(diff)
        mp = os.path.join(d, "meta.json")
        meta = json.load(open(mp)) if os.path.exists(mp) else {}
        meta.update({"property": prop, "summary": summary, "files": [path],
                     "origin": "hand-written sensitivity mutant from DESIGN.md section 5 (no demonstration program; the check itself is the demonstration)"})
        json.dump(meta, open(mp, "w"), indent=1)
        print("built", mid)


def _suite_one(mid):
    d = os.path.join(SEEDED, "own-" + mid)
    if not os.path.exists(os.path.join(d, "patch.diff")):
        return mid, None, []
    with Scratch(os.path.join(d, "patch.diff")) as s:
        r = sh(["/venv/bin/python", os.path.join(VERIF, "tools", "baseline.py"), s.dir], timeout=3000)
    meta = json.load(open(os.path.join(d, "meta.json")))
    meta["suite_green_with_change"] = r.returncode == 0
    meta["suite_tail"] = r.stdout.strip().splitlines()[-3:]
    json.dump(meta, open(os.path.join(d, "meta.json"), "w"), indent=1)
    return mid, r.returncode == 0, meta["suite_tail"]


def suite():
    from multiprocessing.pool import ThreadPool
    only = sys.argv[2:]
    ids = [m[0] for m in M if not only or m[0] in only]
    with ThreadPool(5) as pool:
        for mid, ok, tail in pool.imap_unordered(_suite_one, ids):
            print("%-34s suite %s" % (mid, "GREEN" if ok else "RED  " + " | ".join(tail[-2:])[:160]), flush=True)


if __name__ == "__main__":
    {"build": build, "suite": suite}[sys.argv[1]]()
