#!/usr/bin/env python3
"""Handle seeded regressions (property-breaking patches kept under /verif/seeded/<id>/).

  seeded.py import  <agent _seed dir> <label A|B> <seeded id>   copy a sub-agent's delivery to seeded/<id>/
  seeded.py confirm <seeded id>        apply in a scratch worktree: suite still green? demo fails with / passes without?
  seeded.py detect  <seeded id> [Cxx ...] [--tier quick]   run checks against a scratch worktree with the patch
  seeded.py matrix  [--tier quick]     detect for every seeded change with its own property; prints a table

Scratch worktrees live under /tmp and are removed afterwards; /repo itself is never modified.
"""
import json
import os
import shutil
import subprocess
import sys
import tempfile
import time

VERIF = os.path.dirname(os.path.dirname(os.path.abspath(__file__)))
SEEDED = os.path.join(VERIF, "seeded")


def sh(cmd, **kw):
    return subprocess.run(cmd, shell=isinstance(cmd, str), capture_output=True, text=True, **kw)


class Scratch:
    def __init__(self, patch=None):
        self.dir = tempfile.mkdtemp(prefix="mut_", dir="/tmp")
        os.rmdir(self.dir)
        r = sh(["git", "-C", "/repo", "worktree", "add", "-q", "--detach", self.dir, "HEAD"])
        if r.returncode:
            raise RuntimeError(r.stderr)
        if patch:
            r = sh(["git", "-C", self.dir, "apply", patch])
            if r.returncode:
                self.close()
                raise RuntimeError("patch does not apply: " + r.stderr)

    def close(self):
        sh(["git", "-C", "/repo", "worktree", "remove", "--force", self.dir])
        shutil.rmtree(self.dir, ignore_errors=True)
        sh(["git", "-C", "/repo", "worktree", "prune"])

    def __enter__(self):
        return self

    def __exit__(self, *a):
        self.close()


def cmd_import(src, label, sid):
    dst = os.path.join(SEEDED, sid)
    os.makedirs(dst, exist_ok=True)
    shutil.copy(os.path.join(src, label + ".diff"), os.path.join(dst, "patch.diff"))
    shutil.copy(os.path.join(src, label + "_demo.py"), os.path.join(dst, "demo.py"))
    meta = {}
    try:
        meta = json.load(open(os.path.join(src, label + ".json")))
    except Exception as e:
        meta = {"note": "agent meta unreadable: %s" % e}
    meta["origin"] = "independent sub-agent given only the property text and a scratch worktree (%s, change %s)" % (src, label)
    json.dump(meta, open(os.path.join(dst, "meta.json"), "w"), indent=1)
    print("imported", dst)


def _rewrite_demo(demo_src, wt):
    """demos hard-code the agent's worktree path; point them at the scratch tree"""
    txt = open(demo_src).read()
    import re
    txt = re.sub(r"/tmp/seed\d*_C\d+", wt, txt)
    out = os.path.join(wt, "_demo_run.py")
    open(out, "w").write(txt)
    return out


def cmd_confirm(sid):
    d = os.path.join(SEEDED, sid)
    patch = os.path.join(d, "patch.diff")
    demo = os.path.join(d, "demo.py")
    meta = json.load(open(os.path.join(d, "meta.json")))
    res = {}
    with Scratch() as clean:
        r = sh(["/venv/bin/python", _rewrite_demo(demo, clean.dir)], env=dict(os.environ, PYTHONPATH=clean.dir + "/src"), timeout=900)
        res["demo_exit_without_change"] = r.returncode
    with Scratch(patch) as s:
        r = sh(["/venv/bin/python", _rewrite_demo(demo, s.dir)], env=dict(os.environ, PYTHONPATH=s.dir + "/src"), timeout=900)
        res["demo_exit_with_change"] = r.returncode
        res["demo_output_with_change"] = (r.stdout + r.stderr)[-600:]
        os.remove(os.path.join(s.dir, "_demo_run.py"))
        r = sh(["/venv/bin/python", os.path.join(VERIF, "tools", "baseline.py"), s.dir], timeout=3000)
        res["suite"] = r.stdout.strip().splitlines()[-3:]
        res["suite_ok"] = r.returncode == 0
    res["confirmed"] = res["demo_exit_without_change"] == 0 and res["demo_exit_with_change"] != 0 and res["suite_ok"]
    meta["confirmation"] = res
    meta["confirmed_at"] = time.strftime("%Y-%m-%d %H:%M")
    json.dump(meta, open(os.path.join(d, "meta.json"), "w"), indent=1)
    print(sid, "CONFIRMED" if res["confirmed"] else "NOT CONFIRMED", json.dumps(res)[:700])
    return res["confirmed"]


def cmd_detect(sid, props, tier="quick", quiet=False):
    d = os.path.join(SEEDED, sid)
    meta = json.load(open(os.path.join(d, "meta.json")))
    if not props:
        # detect_with: the change is filed under one property but is, by its nature, a violation of
        # another one's quantifier (e.g. a thread race filed under a sequential property)
        props = meta.get("detect_with") or [meta.get("property", sid.split("-")[0])]
    out = {}
    with Scratch(os.path.join(d, "patch.diff")) as s:
        for p in props:
            t0 = time.time()
            env = dict(os.environ, VERIF_REPO=s.dir, VERIF_EVIDENCE_DIR=os.path.join(s.dir, "_evidence"))
            r = sh([os.path.join(VERIF, "check"), p, tier], env=env, timeout=7200)
            viol = [l for l in r.stdout.splitlines() if l.startswith("VIOLATION")]
            sigs = [l.strip()[:200] for l in r.stdout.splitlines() if l.strip().startswith("failure sig=")]
            out[p] = {"exit": r.returncode, "violations": len(viol), "sigs": sigs[:6], "wall_s": round(time.time() - t0, 1)}
            if not quiet:
                print(sid, p, tier, "exit", r.returncode, "violations", len(viol))
                for sg in sigs[:4]:
                    print("    ", sg)
                if r.returncode == 2:
                    print(r.stdout[-1500:], r.stderr[-1500:])
    meta.setdefault("detection", {})
    for p, v in out.items():
        meta["detection"]["%s/%s" % (p, tier)] = v
    json.dump(meta, open(os.path.join(d, "meta.json"), "w"), indent=1)
    # replays written while testing a mutant live in the scratch worktree (see pbt/runner.py)
    return out


def cmd_matrix(tier, shard=None):
    rows = []
    ids = [sid for sid in sorted(os.listdir(SEEDED)) if os.path.exists(os.path.join(SEEDED, sid, "patch.diff"))]
    if shard:
        i, n = (int(v) for v in shard.split("/"))
        ids = ids[i::n]
    for sid in ids:
        st = json.load(open(os.path.join(SEEDED, sid, "meta.json"))).get("status")
        if st in ("neutralised", "out-of-scope", "out-of-domain"):
            print("%-28s skipped (%s)" % (sid, st))
            continue
        out = cmd_detect(sid, [], tier, quiet=True)
        for p, v in out.items():
            rows.append((sid, p, v["exit"], v["violations"], v["wall_s"]))
            print("%-28s %s exit=%d violations=%d %.0fs" % rows[-1])
    by_id = {}
    for r in rows:
        by_id.setdefault(r[0], []).append(r)
    missed = [rs[0] for rs in by_id.values() if not any(r[2] == 1 for r in rs)]
    print("%d seeded changes checked, %d detected, %d missed" % (len(by_id), len(by_id) - len(missed), len(missed)))
    for r in missed:
        print("  MISSED", r[0])


def main():
    a = sys.argv[1:]
    tier = "quick"
    if "--tier" in a:
        i = a.index("--tier")
        tier = a[i + 1]
        del a[i:i + 2]
    if not a:
        print(__doc__)
        return 2
    if a[0] == "import":
        cmd_import(a[1], a[2], a[3])
    elif a[0] == "confirm":
        return 0 if cmd_confirm(a[1]) else 1
    elif a[0] == "detect":
        cmd_detect(a[1], a[2:], tier)
    elif a[0] == "matrix":
        cmd_matrix(tier, a[1] if len(a) > 1 else None)
    return 0


if __name__ == "__main__":
    sys.exit(main())
