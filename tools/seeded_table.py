#!/usr/bin/env python3
"""print the markdown table of seeded changes for DESIGN.md section 10"""
import json, os
S = os.path.join(os.path.dirname(os.path.dirname(os.path.abspath(__file__))), "seeded")
print("| id | property | what it changes / what it needs to manifest | suite with change | caught by (quick tier) |")
print("|---|---|---|---|---|")
for sid in sorted(os.listdir(S)):
    mp = os.path.join(S, sid, "meta.json")
    if not os.path.exists(mp):
        continue
    m = json.load(open(mp))
    det = m.get("detection", {})
    caught = ", ".join("%s (%d signatures)" % (k.split("/")[0], v["violations"]) for k, v in sorted(det.items()) if v["exit"] == 1) or "MISSED"
    hist = m.get("history")
    if hist:
        if "NEUTRALISED" in hist:
            caught = "no longer a violation"
        if "NOT CAUGHT" in hist:
            caught = "not caught"
        caught += "; " + hist
    if "confirmation" in m:
        suite = "green; demo fails with / passes without" if m["confirmation"].get("confirmed") else "not confirmed"
    else:
        g = m.get("suite_green_with_change")
        suite = "green" if g else ("red (the repository's own tests also notice)" if g is False else "not run")
    txt = (m.get("summary", "") + (" Needs: " + m["needs"] if m.get("needs") else "")).replace("|", "/").replace("\n", " ")
    if len(txt) > 330:
        txt = txt[:327] + "..."
    print("| %s | %s | %s | %s | %s |" % (sid, m.get("property"), txt, suite, caught))
