#!/usr/bin/env python3
"""Run the repository's pinned suite (guard off) and compare with
/root/.vp/BASELINE.json stable_pass.  exit 0 iff every stable test passes."""
import json, subprocess, sys, tempfile, os, xml.etree.ElementTree as ET
base = json.load(open("/root/.vp/BASELINE.json"))
repo = sys.argv[1] if len(sys.argv) > 1 else "/repo"
with tempfile.TemporaryDirectory() as td:
    xmlp = os.path.join(td, "j.xml")
    cmd = ["/venv/bin/python", "-m", "pytest", "-ra", "-q", "-p", "no:cacheprovider", "--timeout=900",
           "--continue-on-collection-errors", "--junitxml=" + xmlp]
    r = subprocess.run(cmd, cwd=repo, capture_output=True, text=True)
    print(r.stdout.strip().splitlines()[-1])
    import shutil; shutil.rmtree(os.path.join(repo, ".hypothesis"), ignore_errors=True)
    passed = set()
    for tc in ET.parse(xmlp).getroot().iter("testcase"):
        if not any(ch.tag in ("failure", "error", "skipped") for ch in tc):
            passed.add("%s::%s" % (tc.get("classname"), tc.get("name")))
missing = [t for t in base["stable_pass"] if t not in passed]
print("stable_pass: %d, passing now: %d, stable tests not passing: %d" % (len(base["stable_pass"]), len(passed), len(missing)))
for t in missing[:20]:
    print("  MISSING", t)
sys.exit(1 if missing else 0)
