#!/usr/bin/env python3
"""Run the repository's pinned suite (guard off) and compare with
/root/.vp/BASELINE.json stable_pass.  exit 0 iff every stable test passes."""
import json, signal, subprocess, sys, tempfile, os, xml.etree.ElementTree as ET


def _sigint_default():
    # background jobs inherit SIGINT=ignore; test_multithreading_with_interrupts needs the default
    signal.signal(signal.SIGINT, signal.SIG_DFL)

base = json.load(open("/root/.vp/BASELINE.json"))
repo = sys.argv[1] if len(sys.argv) > 1 else "/repo"
with tempfile.TemporaryDirectory() as td:
    xmlp = os.path.join(td, "j.xml")
    cmd = ["/venv/bin/python", "-m", "pytest", "-ra", "-q", "-p", "no:cacheprovider", "--timeout=900",
           "--continue-on-collection-errors", "--junitxml=" + xmlp]
    r = subprocess.run(cmd, cwd=repo, capture_output=True, text=True, preexec_fn=_sigint_default)
    print(r.stdout.strip().splitlines()[-1])
    import shutil; shutil.rmtree(os.path.join(repo, ".hypothesis"), ignore_errors=True)
    passed = set()
    for tc in ET.parse(xmlp).getroot().iter("testcase"):
        if not any(ch.tag in ("failure", "error", "skipped") for ch in tc):
            passed.add("%s::%s" % (tc.get("classname"), tc.get("name")))
missing = [t for t in base["stable_pass"] if t not in passed]
print("stable_pass: %d, passing now: %d, stable tests not passing: %d" % (len(base["stable_pass"]), len(passed), len(missing)))
real = []
for t in missing[:20]:
    # re-run a missing test on its own: hypothesis-driven tests of the suite are randomly seeded
    # (test_jacobi.test_add_same_scale_points draws b_mul == order and then fails on the unchanged tree too)
    cls, name = t.split("::")
    parts = cls.split(".")
    if os.path.exists(os.path.join(repo, "/".join(parts) + ".py")):
        path = "/".join(parts) + ".py::" + name                    # module-level test function
    else:
        path = "/".join(parts[:-1]) + ".py::" + parts[-1] + "::" + name
    ok = 0
    for _ in range(4):
        r = subprocess.run(["/venv/bin/python", "-m", "pytest", "-q", "-p", "no:cacheprovider", path], cwd=repo, capture_output=True, text=True, preexec_fn=_sigint_default)
        import shutil; shutil.rmtree(os.path.join(repo, ".hypothesis"), ignore_errors=True)
        ok += r.returncode == 0
    print("  MISSING", t, "-> passes %d/4 when re-run alone%s" % (ok, " (flaky, randomly seeded)" if ok else ""))
    if not ok:
        real.append(t)
sys.exit(1 if real else 0)
