#!/usr/bin/env python3
"""Regenerate MANIFEST.json from the table below and the checks that exist."""
import json, os, sys
HERE = os.path.dirname(os.path.dirname(os.path.abspath(__file__)))
sys.path.insert(0, HERE)

BASELINE = ("cd /repo && /venv/bin/python -m pytest -ra -q -p no:cacheprovider "
            "--timeout=900 --continue-on-collection-errors")

# id -> (technique, level text, level note, design section)
T = {
 "C01": ("hypothesis + exhaustive toy-curve enumeration, sign->verify round trip with reference cross-check",
         "Generated (curve, d, payload, hash, nonce source, encoding, entry point, reload) tuples on the 17 named curves and on toy prime-order curves where every d, k and digest is enumerated; each signature must verify as exactly True under the matching key, also after every serialisation round trip.",
         "Explored inputs only; toy curves stand in for the boundary coincidences that have measure 2^-200 on production curves.", "5 C01"),
 "C02": ("exhaustive (Q,e,r,s) enumeration on toy curves + constructed adversarial pairs + encoding mutation, differential against reference FIPS 186-4 verifier",
         "Every (r,s) in [0,n+1]^2 for every key and digest on toy curves, constructed R=infinity / x(R)>=n / range cases on named curves, and mutated encodings are compared with an independent verifier and a strict decoder; only True or BadSignatureError (BadDigestError) is allowed.",
         "Reference verifier and strict DER reader are trusted; production curves are sampled.", "5 C02"),
 "C03": ("differential testing against a textbook ECDSA signer (exhaustive on toy curves, hypothesis on named curves)",
         "(r,s) decoded from sign_digest(k=k) and the public key bytes are compared with an independent FIPS 186-4 implementation for all (d,k,e) on toy curves and boundary-biased samples on the 17 curves, including RSZeroError / BadDigestError conditions.",
         "Reference signer trusted; sampled on production curves.", "5 C03"),
 "C04": ("differential testing against an independent RFC 6979 implementation (self-checked on RFC vectors), hypothesis + enumeration",
         "generate_k is compared with a from-the-RFC reference for toy orders exhaustively and for curve orders / random orders up to 600 bits with all hash widths, extra entropy and retry counts; deterministic signing is compared with reference signature incl. RS-zero retries on toy curves.",
         "Reference checked against RFC 6979 appendix vectors at start-up (failure = harness error).", "5 C04"),
 "C05": ("hypothesis stateful machine with reference model + exhaustive toy scalar pairs",
         "ECDH objects are driven through generated load/set_curve histories and compared with a model using reference scalar multiplication; all (dA,dB) on toy curves; invalid remote keys must be rejected before use.",
         "Model of the documented behaviour is trusted; histories bounded in length.", "5 C05"),
 "C06": ("exhaustive enumeration over all curves on small prime fields x all point pairs x operand representations, differential against affine chord-and-tangent reference; hypothesis on named curves",
         "Every pair of points on every non-singular curve over small primes, in several Jacobian scalings / negated / legacy representations, is added, doubled, negated, compared and converted and checked against the textbook group law; structured edge cases on the 17 curves.",
         "All p is replaced by all small p plus sampled production curves; y=0 (2-torsion) class is a recorded known finding.", "5 C06"),
 "C07": ("exhaustive scalar ranges on small curves + hypothesis structured scalars on named curves, differential against double-and-add reference",
         "k*P, P*k, mul_add and legacy multiplication for every point and every k in [-3,2*ord+3] on small curves over all paths (lazy table, NAF, declared order), and boundary/structured scalars on production curves, compared with naive reference multiplication.",
         "Sampled on production curves; 2-torsion class known finding.", "5 C07"),
 "C08": ("exhaustive byte-string enumeration on toy curves (cofactor 1,2,4) + constructed invalid points on named curves, differential against SEC1 validator",
         "The accept/reject truth table of from_string / from_der / from_pem / from_public_point is compared with an independent SEC 1 decoder+validator for every short byte string on toy curves and constructed aliases, off-curve, wrong-parity, small-subgroup points on named curves.",
         "Reference validator trusted; production curves sampled by construction.", "5 C08"),
 "C09": ("hypothesis round trips + differential against independent strict DER/PEM codec",
         "Keys with boundary scalars/leading-zero coordinates on all 17 curves are serialised in every format; output must round-trip, be byte-identical to an independent canonical DER encoder, and keys written by that encoder must load to the same values.",
         "Independent DER codec and typed-in OID table trusted.", "5 C09"),
 "C10": ("structure-aware mutation fuzzing + hypothesis + atheris coverage-guided fuzzing with exception-class oracle",
         "Every single-edit neighbour and length-field mutation of valid encodings, random TLV trees and PEM mutations are fed to every decoder entry point; only the documented exception types may escape and returned objects must be usable.",
         "Only generated inputs; hangs reported as inconclusive.", "5 C10"),
 "C11": ("exhaustive enumeration of all short byte strings per decoder + round trips, differential against strict DER reference",
         "All byte strings up to length 3 (4 for selected tags) through each DER reader are compared with a strict X.690 reference (accept iff canonical, value, remainder), plus encoder/decoder round trips over boundary values.",
         "Reference DER reader trusted; longer inputs sampled/mutated.", "5 C11"),
 "C12": ("exhaustive (n,r,s) enumeration for small orders + hypothesis for large, strict-decoding differential",
         "For every n in a range and all (r,s), encoders are inverted by decoders, raw lengths are exact, other lengths are rejected, and the DER decoder accepts exactly the canonical encoding per a strict reference.",
         "Explored inputs only.", "5 C12"),
 "C13": ("exhaustive enumeration of (n,s) for small orders + constructed band around n/2 for 17 curve orders + hypothesis random orders; key-level differential against reference verifier",
         "Every s for every order up to a bound, and the values adjacent to n/2 (the float rounding band) for all curve orders and random orders to 600 bits, are pushed through the three low-S encoders and compared with integer min(s,n-s) and the plain encoder bytes; verification verdict equivalence is checked against a reference verifier, exhaustively over (r,s) on toy curves.",
         "Explored inputs only; reference verifier trusted.", "5 C13"),
 "C14": ("exhaustive (d,k,e) on toy prime-order curves + constructed cases on named curves, validity-predicate oracle",
         "Recovery from reference-made signatures must return <=2 keys containing Q, each verifying the signature; exhaustive on toy curves, boundary/constructed (second candidate at infinity) on cofactor-1 named curves.",
         "Precondition x(kG)<n decided by the reference.", "5 C14"),
 "C15": ("exhaustive small moduli + constructed large primes by residue class, definitional oracles",
         "inverse_mod, square_root_mod_prime and jacobi are checked against their defining equations for all small moduli/residues and for field primes, orders and generated large primes of each class.",
         "Explored inputs only.", "5 C15"),
 "C16": ("exhaustive ranges against a sieve + published pseudoprime/Carmichael constructions + hypothesis",
         "is_prime/next_prime/factorization/gcd/lcm are compared with a sieve and trial division exhaustively below a bound and on adversarial composites below 2^64.",
         "Reference MR with 12 bases is exact below 3.18e23.", "5 C16"),
 "C17": ("exhaustive enumeration of entropy streams per order with exact distribution counting; scripted adversarial streams",
         "For every order below a bound every first entropy chunk is enumerated and the exact output histogram over [1,n-1] is required to be flat; determinism, freshness and range are checked through randrange, SigningKey.generate and sign(entropy=).",
         "Does not pin the sampling algorithm, only range/determinism/freshness/uniformity.", "5 C17"),
 "C18": ("harness-owned thread scheduler (baton + sys.monitoring preemption): exhaustive 1-2 preemption placements + hypothesis-drawn schedules, sequential-result oracle",
         "Pairs/triples of operations on shared points and keys are run under every placement of one (two) preemptions at attribute-access granularity and random multi-preemption schedules; every result must equal the sequential result.",
         "Bounded preemptions; CPython 3.12 sys.monitoring.", "5 C18"),
 "C19": ("hypothesis RuleBasedStateMachine with reference model + exhaustive short operation sequences",
         "Pools of points and keys are driven through generated operation histories; every result must equal the same operation on fresh objects built from the model value; equality must be an equivalence matching model equality.",
         "Histories bounded in length.", "5 C19"),
 "C20": ("exhaustive schedule enumeration (DFS with state pruning) of the real RWLock under a scheduler-aware mutex stub + hypothesis random schedules",
         "All schedules of small closed reader/writer systems are enumerated against the real _rwlock code with the mutexes replaced by scheduler-aware ones; mutual exclusion, reader sharing, deadlock freedom, termination and re-availability are checked at every step.",
         "Closed finite systems; no claim on unfair infinite schedules.", "5 C20"),
}

# round 10: units added to several checks (technique stays generated-input search against the same oracles)
FAULT_UNITS = {
 "faults": ["C01", "C02", "C03", "C04", "C08", "C09", "C11", "C12", "C13", "C14", "C15", "C16", "C17", "C19"],
 "inject": ["C01", "C02", "C06", "C07", "C19"],
}
for _pid in FAULT_UNITS["faults"]:
    T[_pid] = (T[_pid][0] + "; generated fault histories (failed / rejected operations interleaved with valid ones, reference-predicted results)",) + T[_pid][1:]
for _pid in FAULT_UNITS["inject"]:
    T[_pid] = (T[_pid][0] + "; fault injection at every executed line of one operation (sys.monitoring), later results against the reference",) + T[_pid][1:]
T["C20"] = (T["C20"][0] + "; the same systems after a refused writer_release() on the free lock",) + T["C20"][1:]


def main():
    checks, na = [], []
    for pid in sorted(T):
        tech, text, note, ref = T[pid]
        if os.path.exists(os.path.join(HERE, "pbt", "checks", pid.lower() + ".py")):
            checks.append({
                "property_id": pid,
                "quick_cmd": "./check %s quick" % pid,
                "thorough_cmd": "./check %s thorough" % pid,
                "evidence_file": "evidence/%s.json" % pid,
                "replay_cmd_template": "./check %s --replay {path}" % pid,
                "engine": "pbt",
                "level_claimed": {"category": "exploration", "text": text, "design_ref": "DESIGN.md section " + ref},
                "level_note": note,
                "technique": tech,
            })
        else:
            na.append({"property_id": pid, "reason": "check not built yet (work in progress); no verdict is claimed for this property"})
    fixes = []
    try:
        import subprocess
        out = subprocess.run(["git", "-C", "/repo", "log", "--format=%h %s"], capture_output=True, text=True).stdout
        fixes = [l.split()[0] for l in out.splitlines() if l.split(" ", 1)[1].startswith("fix:")]
    except Exception:
        pass
    m = {
        "version": 1,
        "setup_cmd": "./setup.sh",
        "hooks": {
            "guard": "PYTHON_ECDSA_VERIF",
            "enable": "no source hooks are needed: checks import /repo/src directly (PYTHONPATH) and observe/drive the library from outside (attribute replacement of ecdsa._rwlock.threading, sys.monitoring); the guard name is reserved and unused",
            "baseline_off_cmd": BASELINE,
            "source_commits": [],
            "add_only": True,
        },
        "engines": [{"name": "pbt", "path": "pbt/", "serves_properties": [c["property_id"] for c in checks],
                     "kind_free_text": "property-based testing: exhaustive small-domain enumeration, Hypothesis (stateless + stateful), structure-aware mutation, atheris, controlled thread scheduler; explicit reference-model oracles in pbt/ref"}],
        "checks": checks,
        "not_applicable": na,
        "notes": "fix: commits in /repo (unguarded defect repairs, see KNOWN_FINDINGS.txt): " + ", ".join(reversed(fixes)),
    }
    with open(os.path.join(HERE, "MANIFEST.json"), "w") as f:
        json.dump(m, f, indent=1)
        f.write("\n")
    try:
        sys.path.append(os.path.join(HERE, ".deps"))
        import jsonschema
        jsonschema.validate(m, json.load(open("/root/.vp/MANIFEST.schema.json")))
        print("MANIFEST.json valid;", len(checks), "checks,", len(na), "not claimed")
    except ImportError:
        print("written (jsonschema unavailable)")

main()
