"""Shared generators: named curves, toy curves built through the public API,
boundary-biased scalars, digests, hash functions, byte mutators."""
from __future__ import annotations

import hashlib
import functools

from . import ref  # noqa: F401
from .ref import ec as rec
from .ref import nt as rnt

import ecdsa
from ecdsa import curves as _curves
from ecdsa import ellipticcurve as _ell
from ecdsa.curves import Curve

# ------------------------------------------------------------------ named curves
NAMED = [
    "SECP112r1", "SECP112r2", "SECP128r1", "SECP160r1",
    "NIST192p", "NIST224p", "NIST256p", "NIST384p", "NIST521p", "SECP256k1",
    "BRAINPOOLP160r1", "BRAINPOOLP192r1", "BRAINPOOLP224r1",
    "BRAINPOOLP256r1", "BRAINPOOLP320r1", "BRAINPOOLP384r1",
    "BRAINPOOLP512r1",
]
SMALL_NAMED = ["SECP112r1", "SECP128r1", "SECP160r1", "NIST192p"]

# blake2b-128 of repr((p, a, b, Gx, Gy, n, h)) pinned on the unchanged tree:
# the domain parameters are constants of the standards, a change is a
# different curve.  (See also the algebraic self-checks in dom().)
_PARAM_PIN = {}


class Dom:
    """A curve as seen by both sides: the library Curve object and the
    reference tuple ((p,a,b), G, n)."""

    def __init__(self, name, lib, toy=False, h=1, group=None):
        self.name = name
        self.lib = lib
        g = lib.generator
        cf = lib.curve
        self.c = (int(cf.p()), int(cf.a()) % int(cf.p()), int(cf.b()) % int(cf.p()))
        self.p = self.c[0]
        self.G = (int(g.x()), int(g.y()))
        self.n = int(lib.order)
        self.h = h
        self.toy = toy
        self.ref = (self.c, self.G, self.n)
        self.plen = (self.p.bit_length() + 7) // 8
        self.nlen = (self.n.bit_length() + 7) // 8
        self.group = group  # e.g. "Z4n" / "Z2xZ2n" for cofactor toys

    def __repr__(self):
        return "Dom(%s)" % self.name


@functools.lru_cache(maxsize=None)
def named(name) -> Dom:
    lib = getattr(_curves, name)
    h = lib.curve.cofactor()
    d = Dom(name, lib, toy=False, h=h if h else 1)
    # algebraic sanity of the constants, by the reference
    assert rec.on_curve(d.c, d.G), name
    assert rec.mul(d.c, d.n, d.G) is None, name
    return d


# ------------------------------------------------------------------ toy curves
# prime-order toy curves (p, a, b): chosen to cover n<p, n>p, byte-aligned n,
# orderlen(n) != orderlen(p) in both directions (like secp160r1 / none)
TOY_PRIME = {
    "t17x": (17, 2, 6),       # n=11 < p, has a point with x = n (r = x mod n = 0 although x != 0)
    "t31x": (31, 1, 28),      # n=23 < p, point with x = n
    "t101x": (101, 2, 36),    # n=97 < p, point with x = n
    "t13": (13, 2, 4),        # n=17
    "t23a": (23, 1, 4),       # n=29 > p
    "t23b": (23, 1, 19),      # n=19 < p
    "t29": (29, 1, 12),       # n=23
    "t61": (61, 2, 5),        # n=59
    "t127": (127, 1, 26),     # n=131, 8-bit order, 7-bit field
    "t239": (239, 1, 19),     # n=241
    "t251a": (251, 1, 4),     # n=271: orderlen(n)=2 > orderlen(p)=1
    "t251b": (251, 1, 25),    # n=241
    "t257": (257, 1, 16),     # n=251: orderlen(p)=2 > orderlen(n)=1
    "t1021a": (1021, 1, 6),   # n=991
    "t1021b": (1021, 1, 38),  # n=1051
    "t4093": (4093, 2, 23),   # n=4159 (13 bits)
    "t65521a": (65521, 2, 13),  # n=65171, 16-bit order
    "t65521b": (65521, 1, 35),  # n=65761, 17-bit order, 16-bit field
    "t65537": (65537, 2, 25),   # n=65371, 17-bit field, 16-bit order
}


def count_points(c):
    p, a, b = c
    N = 1
    for x in range(p):
        r = (x * x * x + a * x + b) % p
        if r == 0:
            N += 1
        elif pow(r, (p - 1) // 2, p) == 1:
            N += 2
    return N


def _first_point(c, start=0):
    p = c[0]
    for x in range(start, p):
        pts = rec.lift_x(c, x)
        for P in pts:
            if P[1] != 0:
                return P
    raise AssertionError("no point")


def make_lib_curve(name, c, G, n, h, oid=(1, 3, 9999, 1)):
    p, a, b = c
    cf = _ell.CurveFp(p, a, b, h)
    g = _ell.PointJacobi(cf, G[0], G[1], 1, n, generator=True)
    return Curve(name, cf, g, oid)


@functools.lru_cache(maxsize=None)
def toy(name) -> Dom:
    c = TOY_PRIME[name]
    assert rnt.is_prime(c[0]) and rec.nonsingular(c)
    N = count_points(c)
    assert rnt.is_prime(N), (name, N)
    G = _first_point(c)
    assert rec.mul(c, N, G) is None
    lib = make_lib_curve(name, c, G, N, 1)
    return Dom(name, lib, toy=True, h=1)


@functools.lru_cache(maxsize=None)
def toy_cofactor(p, a, b) -> Dom:
    """curve with composite group order N = h*n, n the largest prime factor;
    G of order n.  group structure is determined by brute force."""
    c = (p, a % p, b % p)
    assert rec.nonsingular(c)
    pts = rec.points(c)
    N = len(pts) + 1
    n = rnt.factor(N)[-1][0]
    h = N // n
    G = None
    for P in pts:
        Q = rec.mul(c, h, P)
        if Q is not None:
            G = Q
            break
    assert G is not None and rec.mul(c, n, G) is None
    two_torsion = [P for P in pts if P[1] == 0]
    group = "cyclic" if len(two_torsion) <= 1 else "Z2x"
    name = "tc_%d_%d_%d" % (p, a, b)
    lib = make_lib_curve(name, c, G, n, h)
    return Dom(name, lib, toy=True, h=h, group=group)


@functools.lru_cache(maxsize=None)
def toy_twin(name) -> Dom:
    """same equation and group order as toy(name) but base point 2*G: a different Curve"""
    base = toy(name[:-5])
    G2 = rec.dbl(base.c, base.G)
    # same OID as the parent on purpose: curve identity must not be decided by OID or by equation alone
    lib = make_lib_curve(name, base.c, G2, base.n, 1, base.lib.oid)
    return Dom(name, lib, toy=True, h=1)


@functools.lru_cache(maxsize=None)
def toy_cofactor_noh(p, a, b) -> Dom:
    """like toy_cofactor but the CurveFp is built without the optional cofactor argument"""
    base = toy_cofactor(p, a, b)
    cf = _ell.CurveFp(p, a % p, b % p)
    g = _ell.PointJacobi(cf, base.G[0], base.G[1], 1, base.n, generator=True)
    lib = Curve(base.name + "_noh", cf, g, (1, 3, 9999, 3))
    return Dom(base.name + "_noh", lib, toy=True, h=base.h, group=base.group)


@functools.lru_cache(maxsize=None)
def toy_legacy(name) -> Dom:
    """toy curve whose Curve.generator is a legacy ellipticcurve.Point (no mul_add, no tables)"""
    base = toy(name[:-7])
    cf = _ell.CurveFp(base.c[0], base.c[1], base.c[2], 1)
    g = _ell.Point(cf, base.G[0], base.G[1], base.n)
    lib = Curve(name, cf, g, (1, 3, 9999, 4))
    return Dom(name, lib, toy=True, h=1)


def dom(name) -> Dom:
    if name.endswith("-legacy"):
        return toy_legacy(name)
    if name.endswith("_noh"):
        _, p, a, b, _ = name.split("_")
        return toy_cofactor_noh(int(p), int(a), int(b))
    if name.endswith("-twin"):
        return toy_twin(name)
    if name in TOY_PRIME:
        return toy(name)
    if name.startswith("tc_"):
        _, p, a, b = name.split("_")
        return toy_cofactor(int(p), int(a), int(b))
    return named(name)


def fresh_lib_curve(d: Dom):
    """a new library Curve object (fresh generator, empty lazy table)"""
    return make_lib_curve(d.name, d.c, d.G, d.n, d.h, d.lib.oid)


# ------------------------------------------------------------------ scalars
def boundary_scalars(n):
    """deterministic list of boundary values in [1, n-1]"""
    s = {1, 2, 3, n - 1, n - 2, n - 3, n // 2, n // 2 + 1, n // 2 - 1}
    bl = n.bit_length()
    for k in (1, 7, 8, 9, 15, 16, 31, 32, 63, 64, bl - 9, bl - 8, bl - 2, bl - 1):
        if k > 0:
            s |= {1 << k, (1 << k) - 1, (1 << k) + 1}
    s.add(int("55" * ((bl + 7) // 8), 16) % n)
    s.add(int("aa" * ((bl + 7) // 8), 16) % n)
    s.add(((1 << (bl - 1)) - 1))          # run of ones
    s.add(n >> 8)                          # leading zero byte
    s.add(n >> 16)
    s.add(n >> 24)
    return sorted(v for v in s if 1 <= v <= n - 1)


def st_scalar(n):
    """hypothesis strategy for a scalar in [1, n-1], boundary biased"""
    from hypothesis import strategies as st

    bs = boundary_scalars(n)
    return st.one_of(
        st.sampled_from(bs),
        st.integers(1, n - 1),
        st.integers(1, max(1, min(n - 1, 1 << 16))),
        st.integers(max(1, n - (1 << 16)), n - 1) if n > (1 << 17) else st.integers(1, n - 1),
        # leading zero bytes
        st.integers(1, max(1, (n - 1) >> 8)),
        st.integers(1, max(1, (n - 1) >> 17)),
    )


def st_multiplier(n):
    """any integer multiplier: 0, negative, beyond n, several*n+delta"""
    from hypothesis import strategies as st

    return st.one_of(
        st_scalar(n),
        st.sampled_from([0, -1, -2, n, n + 1, 2 * n - 1, 2 * n, 2 * n + 1,
                         3 * n, 4 * n - 1, -n, -n - 1, -2 * n + 1]),
        st.builds(lambda k, d: k * n + d, st.integers(-3, 6), st.integers(-3, 3)),
        st.integers(-(4 * n), 6 * n),
    )


# ------------------------------------------------------------------ hashes
class _TruncHash:
    """hashlib-like object over SHA-256, output cut/extended to SIZE bytes"""

    SIZE = 32
    block_size = 64

    def __init__(self, data=b""):
        self._h = hashlib.sha256()
        self.digest_size = self.SIZE
        self.name = "trunc%d" % self.SIZE
        if data:
            self._h.update(data)

    def update(self, data):
        self._h.update(data)

    def digest(self):
        out = b""
        seed = self._h.digest()
        i = 0
        while len(out) < self.SIZE:
            out += hashlib.sha256(seed + bytes([i])).digest()
            i += 1
        return out[: self.SIZE]

    def hexdigest(self):
        return self.digest().hex()

    def copy(self):
        o = type(self)()
        o._h = self._h.copy()
        return o


class Short4(_TruncHash):
    SIZE = 4


class Short7(_TruncHash):
    SIZE = 7


class Wide100(_TruncHash):
    SIZE = 100


class _HashTable(dict):
    """name -> hashlib-like constructor; "trunc<N>" is made on demand for every N >= 1"""

    def __missing__(self, name):
        if name.startswith("trunc") and name[5:].isdigit() and int(name[5:]) >= 1:
            cls = type("Trunc%s" % name[5:], (_TruncHash,), {"SIZE": int(name[5:])})
            self[name] = cls
            return cls
        raise KeyError(name)


def exact_hash_name(n, minimum=1):
    """name of a hash whose output is exactly as long as the order n in octets"""
    return "trunc%d" % max(minimum, (n.bit_length() + 7) // 8)


HASHES = _HashTable({
    "md5": hashlib.md5,
    "sha1": hashlib.sha1,
    "sha224": hashlib.sha224,
    "sha256": hashlib.sha256,
    "sha384": hashlib.sha384,
    "sha512": hashlib.sha512,
    "sha3_256": hashlib.sha3_256,
    "blake2b": hashlib.blake2b,
    "short4": Short4,
    "short7": Short7,
    "wide100": Wide100,
})
HASH_NAMES = list(HASHES)


# ------------------------------------------------------------------ digests
def st_digest(nbytes_order, max_factor=3):
    """non-empty digests of length 1..max_factor*orderlen, structured"""
    from hypothesis import strategies as st

    maxlen = max(2, max_factor * nbytes_order)
    lens = st.one_of(
        st.integers(1, maxlen),
        st.sampled_from(sorted({1, max(1, nbytes_order - 1), nbytes_order,
                                nbytes_order + 1, 2 * nbytes_order, maxlen})),
    )

    def build(l, kind, rnd):
        if kind == 0:
            return bytes(l)
        if kind == 1:
            return b"\xff" * l
        if kind == 2:
            i = rnd % (8 * l)
            v = 1 << i
            return v.to_bytes(l, "big")
        if kind == 3:
            return (b"\xff" + bytes(rnd.to_bytes(8, "big") * l))[:l]
        h = hashlib.shake_128(rnd.to_bytes(8, "big")).digest(l)
        if kind == 4:
            return b"\x00" + h[1:] if l > 1 else h
        return h

    return st.builds(build, lens, st.integers(0, 7), st.integers(0, 2 ** 64 - 1))


# ------------------------------------------------------------------ byte mutators
def mutations(seed: bytes, alphabet=(0x00, 0x01, 0x02, 0x03, 0x04, 0x06, 0x30,
                                     0x7F, 0x80, 0x81, 0x82, 0xA0, 0xA1, 0xFF),
              full_subst=False, stride=1):
    """structure-unaware single-edit neighbourhood: truncations, deletions,
    substitutions, insertions.  Yields (kind, bytes).  stride > 1 thins the
    substitution / insertion positions (the first 24 bytes, where the headers
    live, are always kept)."""
    n = len(seed)
    for i in range(n):
        yield "trunc", seed[:i]
    for i in range(1, n):
        yield "tail", seed[i:]
    for i in range(n):
        yield "del", seed[:i] + seed[i + 1 :]
    for i in range(n):
        if stride > 1 and i >= 24 and i % stride:
            continue
        vals = range(256) if full_subst else (
            set(alphabet) | {seed[i] ^ 1, seed[i] ^ 0x80, (seed[i] + 1) & 255,
                             (seed[i] - 1) & 255})
        for v in vals:
            if v != seed[i]:
                yield "subst", seed[:i] + bytes([v]) + seed[i + 1 :]
    for i in range(n + 1):
        if stride > 1 and i >= 24 and i % stride:
            continue
        for v in alphabet:
            yield "ins", seed[:i] + bytes([v]) + seed[i:]
    yield "dup", seed + seed
    yield "append0", seed + b"\x00"


def tlv_spans(data: bytes, pos=0, end=None, depth=0, out=None):
    """best-effort list of (tag_pos, len_pos, len_len, content_pos, content_len)
    for nested TLVs of a VALID encoding (used to aim mutations at lengths)."""
    from .ref import der as rder

    out = [] if out is None else out
    end = len(data) if end is None else end
    while pos < end:
        try:
            tag = data[pos]
            n, p = rder.read_len(data[:end], pos + 1)
        except rder.DERError:
            return out
        if p + n > end:
            return out
        out.append((pos, pos + 1, p - pos - 1, p, n))
        if tag & 0x20:
            tlv_spans(data, p, p + n, depth + 1, out)
        elif tag == 0x04 and n > 2 and data[p] == 0x30:
            tlv_spans(data, p, p + n, depth + 1, out)
        elif tag == 0x03 and n > 3 and data[p] == 0 and data[p + 1] == 0x30:
            tlv_spans(data, p + 1, p + n, depth + 1, out)
        pos = p + n
    return out


def _resize(seed, tp, lp, ll, cp, cl, new_content):
    """replace the content of the TLV at tp and fix up the lengths of all enclosing TLVs"""
    from .ref import der as rder
    delta = None
    out = seed[:lp] + rder.enc_len(len(new_content)) + new_content + seed[cp + cl :]
    # re-encode enclosing lengths by rebuilding from the outside in (valid seeds only)
    spans = [sp for sp in tlv_spans(seed) if sp[3] <= tp and sp[3] + sp[4] >= cp + cl and sp[0] != tp]
    # process innermost enclosing first
    cur_seed = seed
    cur = (tp, lp, ll, cp, cl)
    content = new_content
    piece_start, piece_end = tp, cp + cl
    piece = seed[tp:tp + 1] + rder.enc_len(len(new_content)) + new_content
    for sp in sorted(spans, key=lambda z: -z[0]):
        stp, slp, sll, scp, scl = sp
        inner = seed[scp:piece_start] + piece + seed[piece_end:scp + scl]
        piece = seed[stp:stp + 1] + rder.enc_len(len(inner)) + inner
        piece_start, piece_end = stp, scp + scl
    return seed[:piece_start] + piece + seed[piece_end:]


def length_mutations(seed: bytes):
    """replace every length field by wrong / non-minimal variants"""
    from .ref import der as rder

    for (tp, lp, ll, cp, cl) in tlv_spans(seed):
        variants = [
            bytes([0]), rder.enc_len(max(0, cl - 1)), rder.enc_len(cl + 1),
            rder.enc_len(cl + 2), bytes([0x7F]), bytes([0x80]),
            bytes([0x81, cl & 0xFF]), bytes([0x82, 0, cl & 0xFF]),
            bytes([0x83, 0, cl >> 8 & 0xFF, cl & 0xFF]), bytes([0x84, 0, 0, cl >> 8 & 0xFF, cl & 0xFF]),
            bytes([0x84, 0xFF, 0xFF, 0xFF, 0xFF]), bytes([0x81]),
            bytes([0x88]) + b"\x7f" * 8, rder.enc_len(len(seed)),
            rder.enc_len(1 << 16),
        ]
        for v in variants:
            yield "len", seed[:lp] + v + seed[lp + ll :]
        # cut the buffer right after the header / in the middle of content
        yield "cut-hdr", seed[:cp]
        yield "cut-mid", seed[: cp + cl // 2]
        # tag swaps
        for t in (0x02, 0x03, 0x04, 0x05, 0x06, 0x30, 0x31, 0xA0, 0xA1, 0x1F, 0x3F):
            if t != seed[tp]:
                yield "tag", seed[:tp] + bytes([t]) + seed[tp + 1 :]
        # drop / duplicate the element
        yield "drop", seed[:tp] + seed[cp + cl :]
        yield "dupel", seed[: cp + cl] + seed[tp : cp + cl] + seed[cp + cl :]
        # content tweaks: negative / padded integer, padded OID arc
        if seed[tp] == 0x02 and cl:
            body = seed[cp : cp + cl]
            yield "int-pad", seed[:lp] + rder.enc_len(cl + 1) + b"\x00" + body + seed[cp + cl :]
            yield "int-neg", seed[:cp] + bytes([body[0] | 0x80]) + seed[cp + 1 :]
            # a canonical INTEGER of thousands of decimal digits (cannot be printed in decimal by Python >= 3.11)
            huge = b"\x01" + bytes(2100)
            yield "int-huge", _resize(seed, tp, lp, ll, cp, cl, huge)
        if seed[tp] == 0x06 and cl:
            body = seed[cp : cp + cl]
            for j in range(cl):
                yield "oid-pad", seed[:lp] + rder.enc_len(cl + 1) + body[:j] + b"\x80" + body[j:] + seed[cp + cl :]
            # a well-formed OID whose last arc has thousands of decimal digits
            yield "oid-huge-arc", _resize(seed, tp, lp, ll, cp, cl, body + b"\xff" * 2100 + b"\x7f")
            yield "oid-huge-first", _resize(seed, tp, lp, ll, cp, cl, b"\xff" * 2100 + b"\x7f" + body)
        if seed[tp] == 0x03 and cl:
            for u in range(1, 9):
                yield "bits-unused", seed[:cp] + bytes([u]) + seed[cp + 1 :]
            for content in (b"\x00", b"\x00\x00", b"\x00\x04", b"\x00\x02", b"\x00\x06", b"\x07", b"\x00\x04\x01"):
                yield "bits-degenerate", _resize(seed, tp, lp, ll, cp, cl, content)
            for content in (b"\x00\x04" + b"\xff" * 4000, b"\x00\x02" + b"\x7f" * 2000, b"\x00" + b"\xff" * 1800):
                yield "bits-huge", _resize(seed, tp, lp, ll, cp, cl, content)
        if seed[tp] == 0x04 and cl:
            for content in (b"", b"\x00", b"\x30\x00", b"\x01"):
                yield "octets-degenerate", _resize(seed, tp, lp, ll, cp, cl, content)
            # contents of thousands of octets (read as one integer they have more decimal digits than Python >= 3.11 prints)
            for content in (b"\x01" + bytes(2100), b"\xff" * 1800, seed[cp:cp + cl] + b"\x00" * 4000, b"\x00" * 1799 + b"\x01"):
                yield "octets-huge", _resize(seed, tp, lp, ll, cp, cl, content)
        if seed[tp] == 0x02 and cl:
            for content in (b"\x00", b"\x02", b"\x7f", b"\x00\x80"):
                yield "int-small", _resize(seed, tp, lp, ll, cp, cl, content)
        if seed[tp] in (0x30, 0xA0, 0xA1) and cl:
            yield "constructed-empty", _resize(seed, tp, lp, ll, cp, cl, b"")
