"""Harness-owned thread scheduler.

Real threads, but exactly one of them runs at any time: a thread only
proceeds when the scheduler hands it the baton, and gives it back at its next
*switch point*.  Switch points are (a) calls made by scheduler-aware fake
mutexes and explicit ``yield_here()`` calls, and (b) ``sys.monitoring`` LINE /
INSTRUCTION events on selected code objects of the library (PEP 669), which
lets the harness preempt a thread between two bytecodes of library code.

The schedule is a pure function of the ``choose`` callback, so a run can be
replayed exactly from the list of choices it made.
"""
import sys
import threading
import time

TOOL_ID = 3
_mon = sys.monitoring


class Abort(BaseException):
    """raised inside controlled threads to unwind an abandoned run"""


class Deadlock(Exception):
    pass


class T:
    def __init__(self, idx, fn, name):
        self.idx = idx
        self.fn = fn
        self.name = name
        self.go = threading.Semaphore(0)
        self.done = False
        self.blocked_on = None      # object with .is_free() the thread waits for
        self.exc = None
        self.result = None
        self.pos = ()               # position signature at the last switch point
        self.switches = 0
        self.info = None
        self.phase = "idle"
        self.round = 0
        self.ident = None
        self.skip = 0               # number of switch points to pass without handing the baton back


class Sched:
    def __init__(self):
        self.threads = []
        self.control = threading.Semaphore(0)
        self.by_ident = {}
        self.active = False
        self.abort = False
        self.current = None
        self.trace = []             # (thread idx, n_runnable) per step
        self.quiet = False          # when True switch points are ignored (run-to-completion segments)
        self.draining = False
        self.step_timeout = 10.0    # seconds a thread may run without reaching a switch point or finishing
        self._stuck_thread = None
        self.pos_fn = None          # optional: () -> position signature, called in the yielding thread
        self.on_step = None         # optional: callback(sched, thread) after every step (invariants)
        self.monitored_codes = []

    # ------------------------------------------------------------------ threads
    def spawn(self, fn, name=None):
        t = T(len(self.threads), fn, name or "t%d" % len(self.threads))
        self.threads.append(t)
        return t

    def _body(self, t):
        t.ident = threading.get_ident()
        self.by_ident[t.ident] = t
        try:
            t.go.acquire()              # wait for the first baton
            if self.abort:
                raise Abort()
            t.result = t.fn(t)
        except Abort:
            pass
        except BaseException as e:      # noqa
            t.exc = e
        finally:
            t.done = True
            self.by_ident.pop(t.ident, None)
            self.control.release()

    def me(self):
        return self.by_ident.get(threading.get_ident())

    # ------------------------------------------------------------------ switch points
    def yield_here(self, info=None):
        """called from a controlled thread: give the baton back"""
        t = self.me()
        if t is None or not self.active or self.quiet:
            return
        if self.abort:
            raise Abort()
        if t.skip > 0:
            t.skip -= 1
            t.switches += 1
            return
        t.info = info
        t.switches += 1
        if self.pos_fn is not None:
            t.pos = self.pos_fn()
        self.control.release()
        t.go.acquire()
        if self.abort:
            raise Abort()

    # ------------------------------------------------------------------ main loop
    def runnable(self):
        out = []
        for t in self.threads:
            if t.done:
                continue
            if t.blocked_on is not None and not t.blocked_on.is_free():
                continue
            out.append(t)
        return out

    def run(self, choose, max_steps=100000):
        """choose(sched, runnable, step) -> index into runnable (or None to stop
        and abandon the run).  Returns 'done', 'deadlock', 'stopped' or 'steps'."""
        self.active = True
        real = []
        for t in self.threads:
            th = threading.Thread(target=self._body, args=(t,), daemon=True)
            real.append(th)
            th.start()
        outcome = "done"
        step = 0
        try:
            while True:
                if all(t.done for t in self.threads):
                    break
                r = self.runnable()
                if not r:
                    outcome = "deadlock"
                    break
                if step >= max_steps:
                    outcome = "steps"
                    break
                k = choose(self, r, step)
                if k is None:
                    outcome = "stopped"
                    break
                t = r[k]
                self.trace.append((t.idx, len(r)))
                self.current = t
                t.go.release()
                if not self.control.acquire(timeout=self.step_timeout):
                    # the running thread neither yielded nor finished: it is blocked on a primitive the
                    # harness does not control (e.g. a real lock held by a thread that is parked at a switch
                    # point).  The schedule cannot be continued; unwind everything and report 'stuck'.
                    outcome = "stuck"
                    self._stuck_thread = t
                    break
                step += 1
                if self.on_step is not None:
                    self.on_step(self, t)
        finally:
            if outcome == "stuck":
                # do NOT unwind with an injected exception here: a thread parked between the body of a
                # `with lock:` block and the call of __exit__ would leave the real lock held for ever.
                # Let every thread run on freely (no more switch points) so that all real primitives are
                # released in the ordinary way; the results of this run are discarded by the caller.
                self.quiet = True
                self.draining = True
                pending = [t for t in self.threads if not t.done]
                for t in pending:
                    if t is not self._stuck_thread:
                        t.go.release()
                for t in pending:
                    if not self.control.acquire(timeout=60):
                        break
            elif not all(t.done for t in self.threads):
                self.abort = True
                self.quiet = False
                pending = [t for t in self.threads if not t.done]
                for t in pending:
                    t.go.release()
                for t in pending:
                    # parked threads unwind with Abort (releasing whatever they hold), which also
                    # unblocks a thread that was stuck behind them; it aborts at its next switch point
                    if not self.control.acquire(timeout=120):
                        break
            self.active = False
            for th in real:
                th.join(timeout=5)
        return outcome


# ---------------------------------------------------------------------- fake mutex
class FakeLock:
    """scheduler-aware replacement for threading.Lock (non-reentrant; may be
    released by a thread other than the one that acquired it, like the real one)"""

    sched = None    # set by the harness before the library creates its locks

    def __init__(self):
        self.owner = None
        self.acquisitions = 0
        self.parked = 0

    def is_free(self):
        return self.owner is None

    def acquire(self, blocking=True, timeout=-1):
        s = FakeLock.sched
        t = s.me() if s is not None else None
        if t is None:
            # uncontrolled caller (set-up code): behave like an uncontended lock
            if self.owner is not None:
                raise RuntimeError("FakeLock contended outside the scheduler")
            self.owner = "main"
            return True
        s.yield_here(("acquire", id(self)))
        spins = 0
        while self.owner is not None:
            if not blocking:
                return False
            t.blocked_on = self
            self.parked += 1
            if s.quiet and not s.draining:
                # a run-to-completion segment cannot complete before the holder has released the lock:
                # hand the baton back so that the scheduler runs the holder first
                s.quiet = False
            s.yield_here(("parked", id(self)))
            if s.draining:
                # drain after a stuck schedule: all threads run freely, nobody hands the baton around any
                # more, so wait in real time, and give up rather than spin for ever
                spins += 1
                time.sleep(0.0005)
                if spins > 20000:
                    raise Abort("stand-in lock never released during the drain of a stuck schedule")
        t.blocked_on = None
        self.owner = t.idx
        self.acquisitions += 1
        return True

    def release(self):
        s = FakeLock.sched
        t = s.me() if s is not None else None
        if t is not None:
            s.yield_here(("release", id(self)))
        if self.owner is None:
            raise RuntimeError("release unlocked lock")
        self.owner = None

    def locked(self):
        return self.owner is not None

    __enter__ = acquire

    def __exit__(self, *a):
        self.release()


class FakeRLock(FakeLock):
    """scheduler-aware re-entrant lock"""

    def __init__(self):
        FakeLock.__init__(self)
        self.depth = 0

    def acquire(self, blocking=True, timeout=-1):
        s = FakeLock.sched
        t = s.me() if s is not None else None
        me = t.idx if t is not None else "main"
        if self.owner == me and self.depth:
            self.depth += 1
            return True
        ok = FakeLock.acquire(self, blocking, timeout)
        if ok:
            self.depth = 1
        return ok

    def release(self):
        s = FakeLock.sched
        t = s.me() if s is not None else None
        me = t.idx if t is not None else "main"
        if self.owner != me or not self.depth:
            raise RuntimeError("cannot release un-acquired lock")
        self.depth -= 1
        if self.depth == 0:
            FakeLock.release(self)

    __enter__ = acquire


_REAL_LOCK_TYPES = (type(threading.Lock()), type(threading.RLock()))


def adopt_locks(root, module_prefix="ecdsa", _map=None, _seen=None, _depth=0):
    """replace every real mutex reachable from `root` (a module, a class or an instance: its attributes,
    class attributes, and nested objects whose class lives in `module_prefix`) by a scheduler-aware one.
    One real lock shared by several holders becomes one shared stand-in.  Locks created at import time
    (module globals, class-body defaults) are otherwise invisible to the scheduler: a thread parked at a
    switch point while holding one would block the others inside C code."""
    import types
    _map = {} if _map is None else _map
    _seen = set() if _seen is None else _seen
    if id(root) in _seen or _depth > 6:
        return _map
    _seen.add(id(root))

    def fake_for(lock):
        if id(lock) not in _map:
            _map[id(lock)] = (FakeRLock() if isinstance(lock, _REAL_LOCK_TYPES[1]) else FakeLock(), lock)
        return _map[id(lock)][0]

    try:
        items = list(vars(root).items())
    except TypeError:
        return _map
    for k, v in items:
        if isinstance(v, _REAL_LOCK_TYPES):
            try:
                setattr(root, k, fake_for(v))
            except Exception:
                pass
        elif isinstance(v, types.ModuleType):
            if v is threading and isinstance(root, types.ModuleType):
                setattr(root, k, FakeThreadingModule)
        elif isinstance(v, type):
            if (getattr(v, "__module__", "") or "").startswith(module_prefix):
                adopt_locks(v, module_prefix, _map, _seen, _depth + 1)
        elif hasattr(v, "__dict__") and (type(v).__module__ or "").startswith(module_prefix):
            adopt_locks(v, module_prefix, _map, _seen, _depth + 1)
    if not isinstance(root, (type, types.ModuleType)):
        adopt_locks(type(root), module_prefix, _map, _seen, _depth + 1)
    return _map


class _FakeThreadingMeta(type):
    def __getattr__(cls, name):
        # anything that is not a lock (current_thread, get_ident, local, ...) is the real thing:
        # every scheduled thread is a real thread, only one of them runs at a time
        import threading as _real
        return getattr(_real, name)


class FakeThreadingModule(metaclass=_FakeThreadingMeta):
    """stands in for the ``threading`` name inside ecdsa._rwlock"""

    Lock = FakeLock
    RLock = FakeRLock


# ---------------------------------------------------------------------- sys.monitoring
class Monitor:
    """delivers switch points for LINE events (and selected INSTRUCTION events)
    of the given code objects to a scheduler"""

    def __init__(self, sched, codes, lines=True, instr_filter=None):
        self.sched = sched
        self.codes = list(codes)
        self.lines = lines
        self.instr_filter = instr_filter    # (code, offset) -> bool, or None
        self.line_events = 0
        self.instr_events = 0
        self._offsets = {}
        if instr_filter is not None:
            for c in self.codes:
                self._offsets[c] = {off for off in self._all_offsets(c) if instr_filter(c, off)}

    @staticmethod
    def _all_offsets(code):
        import dis
        return [i.offset for i in dis.get_instructions(code)]

    def __enter__(self):
        ev = _mon.events
        try:
            _mon.use_tool_id(TOOL_ID, "verif-sched")
        except ValueError:
            _mon.free_tool_id(TOOL_ID)
            _mon.use_tool_id(TOOL_ID, "verif-sched")
        if self.lines:
            _mon.register_callback(TOOL_ID, ev.LINE, self._on_line)
        if self.instr_filter is not None:
            _mon.register_callback(TOOL_ID, ev.INSTRUCTION, self._on_instr)
        mask = (ev.LINE if self.lines else 0) | (ev.INSTRUCTION if self.instr_filter is not None else 0)
        for c in self.codes:
            _mon.set_local_events(TOOL_ID, c, mask)
        return self

    def __exit__(self, *a):
        ev = _mon.events
        for c in self.codes:
            _mon.set_local_events(TOOL_ID, c, 0)
        _mon.register_callback(TOOL_ID, ev.LINE, None)
        _mon.register_callback(TOOL_ID, ev.INSTRUCTION, None)
        _mon.free_tool_id(TOOL_ID)

    def _on_line(self, code, line):
        s = self.sched
        if s.active and s.me() is not None:
            self.line_events += 1
            s.yield_here(("line", code.co_name, line))

    def _on_instr(self, code, offset):
        s = self.sched
        if s.active and offset in self._offsets.get(code, ()) and s.me() is not None:
            self.instr_events += 1
            s.yield_here(("instr", code.co_name, offset))


def code_objects(*objs):
    """all function code objects reachable from the given classes / functions"""
    import types
    out = []
    seen = set()

    def walk_code(c):
        if c in seen:
            return
        seen.add(c)
        out.append(c)
        for k in c.co_consts:
            if isinstance(k, types.CodeType):
                walk_code(k)

    for o in objs:
        if isinstance(o, type):
            for v in vars(o).values():
                f = getattr(v, "__func__", v)
                if isinstance(f, types.FunctionType):
                    walk_code(f.__code__)
        elif isinstance(o, types.FunctionType):
            walk_code(o.__code__)
    return out
