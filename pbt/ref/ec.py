"""Textbook affine arithmetic on y^2 = x^3 + a x + b over F_p.

A curve is the tuple (p, a, b); a point is None (identity) or (x, y) with
canonical residues.  Deliberately naive; shares no code with the library.
Points with y = 0 are ordinary points of order 2.
"""


def on_curve(c, P):
    if P is None:
        return True
    p, a, b = c
    x, y = P
    return 0 <= x < p and 0 <= y < p and (y * y - (x * x * x + a * x + b)) % p == 0


def neg(c, P):
    if P is None:
        return None
    return (P[0], (-P[1]) % c[0])


def add(c, P, Q):
    if P is None:
        return Q
    if Q is None:
        return P
    p, a, b = c
    x1, y1 = P
    x2, y2 = Q
    if x1 == x2:
        if (y1 + y2) % p == 0:
            return None
        lam = (3 * x1 * x1 + a) * pow(2 * y1, -1, p) % p
    else:
        lam = (y2 - y1) * pow(x2 - x1, -1, p) % p
    x3 = (lam * lam - x1 - x2) % p
    y3 = (lam * (x1 - x3) - y1) % p
    return (x3, y3)


def dbl(c, P):
    return add(c, P, P)


def mul(c, k, P):
    """k-fold sum of P for any integer k (plain double-and-add)."""
    if k < 0:
        return mul(c, -k, neg(c, P))
    R = None
    A = P
    while k:
        if k & 1:
            R = add(c, R, A)
        A = add(c, A, A)
        k >>= 1
    return R


def nonsingular(c):
    p, a, b = c
    return (4 * a * a * a + 27 * b * b) % p != 0


def points(c):
    """all affine points of a small curve, sorted"""
    p, a, b = c
    sq = {}
    for y in range(p):
        sq.setdefault(y * y % p, []).append(y)
    out = []
    for x in range(p):
        for y in sq.get((x * x * x + a * x + b) % p, ()):
            out.append((x, y))
    return out


def order(c, P):
    """exact order of P by brute force (small curves only)"""
    n = 1
    Q = P
    while Q is not None:
        Q = add(c, Q, P)
        n += 1
    return n


def group_order(c):
    return len(points(c)) + 1


def lift_x(c, x):
    """both points with this x (brute-force free: Euler + Tonelli via pow when
    p % 4 == 3, otherwise search) -> sorted list of points"""
    p, a, b = c
    rhs = (x * x * x + a * x + b) % p
    if rhs == 0:
        return [(x, 0)]
    if pow(rhs, (p - 1) // 2, p) != 1:
        return []
    y = sqrt_mod(rhs, p)
    return sorted([(x, y), (x, p - y)])


def sqrt_mod(a, p):
    """Tonelli-Shanks, p odd prime, a a non-zero residue"""
    a %= p
    if p % 4 == 3:
        return pow(a, (p + 1) // 4, p)
    q, s = p - 1, 0
    while q % 2 == 0:
        q //= 2
        s += 1
    z = 2
    while pow(z, (p - 1) // 2, p) != p - 1:
        z += 1
    m, cc, t, r = s, pow(z, q, p), pow(a, q, p), pow(a, (q + 1) // 2, p)
    while t != 1:
        i, t2 = 0, t
        while t2 != 1:
            t2 = t2 * t2 % p
            i += 1
        bb = pow(cc, 1 << (m - i - 1), p)
        m, cc = i, bb * bb % p
        t, r = t * cc % p, r * bb % p
    return r
