"""Elementary number theory oracles (sieve, trial division, deterministic
Miller-Rabin, Legendre/Jacobi by definition)."""
import math


def sieve(n):
    """list of primes < n"""
    if n < 3:
        return []
    s = bytearray([1]) * n
    s[0] = s[1] = 0
    for i in range(2, int(n ** 0.5) + 1):
        if s[i]:
            s[i * i :: i] = bytearray(len(range(i * i, n, i)))
    return [i for i in range(n) if s[i]]


def sieve_flags(n):
    s = bytearray([1]) * n
    s[0:2] = b"\0\0"[: min(2, n)]
    for i in range(2, int(n ** 0.5) + 1):
        if s[i]:
            s[i * i :: i] = bytearray(len(range(i * i, n, i)))
    return s


_MR_BASES = (2, 3, 5, 7, 11, 13, 17, 19, 23, 29, 31, 37)
MR_EXACT_BELOW = 318665857834031151167461  # Sorenson & Webster 2015


def is_prime(n):
    """exact for n < 3.18e23 (12 prime bases); trial division for tiny n"""
    if n < 2:
        return False
    for q in _MR_BASES:
        if n % q == 0:
            return n == q
    d, s = n - 1, 0
    while d % 2 == 0:
        d //= 2
        s += 1
    for a in _MR_BASES:
        x = pow(a, d, n)
        if x in (1, n - 1):
            continue
        for _ in range(s - 1):
            x = x * x % n
            if x == n - 1:
                break
        else:
            return False
    return True


def factor(n):
    """trial division -> sorted [(p, e)]; for n within reach only"""
    out = []
    d = 2
    while d * d <= n:
        if n % d == 0:
            e = 0
            while n % d == 0:
                n //= d
                e += 1
            out.append((d, e))
        d += 1 if d == 2 else 2
    if n > 1:
        out.append((n, 1))
    return out


def legendre(a, p):
    """Euler criterion, p odd prime"""
    a %= p
    if a == 0:
        return 0
    return 1 if pow(a, (p - 1) // 2, p) == 1 else -1


def jacobi_by_factors(a, factors):
    """product of Legendre symbols over the known factorisation of n"""
    r = 1
    for p, e in factors:
        l = legendre(a, p)
        if l == 0:
            return 0
        if e % 2:
            r *= l
    return r


def gcd(*xs):
    g = 0
    for x in xs:
        g = math.gcd(g, x)
    return g


def lcm(*xs):
    r = 1
    for x in xs:
        r = r * x // math.gcd(r, x)
    return r
