"""RFC 6979 section 3.2 (a-h) with 3.6 additional input, written from the
RFC text with hmac/hashlib only."""
import hmac


def _bits2int(b: bytes, qlen: int) -> int:
    x = int.from_bytes(b, "big")
    blen = 8 * len(b)
    return x >> (blen - qlen) if blen > qlen else x


def _int2octets(x: int, rlen: int) -> bytes:
    return x.to_bytes(rlen, "big")


def _bits2octets(b: bytes, q: int, qlen: int, rlen: int) -> bytes:
    z1 = _bits2int(b, qlen)
    z2 = z1 - q
    return _int2octets(z1 if z2 < 0 else z2, rlen)


def candidates(q, x, hashfunc, h1: bytes, extra=b""):
    """generator of the successive acceptable nonces k (1 <= k < q)"""
    qlen = q.bit_length()
    rlen = (qlen + 7) // 8
    hlen = hashfunc().digest_size

    def H(key, msg):
        return hmac.new(key, msg, hashfunc).digest()

    V = b"\x01" * hlen
    K = b"\x00" * hlen
    seedmat = _int2octets(x, rlen) + _bits2octets(h1, q, qlen, rlen) + extra
    K = H(K, V + b"\x00" + seedmat)
    V = H(K, V)
    K = H(K, V + b"\x01" + seedmat)
    V = H(K, V)
    while True:
        T = b""
        while 8 * len(T) < qlen:
            V = H(K, V)
            T += V
        k = _bits2int(T, qlen)
        if 1 <= k < q:
            yield k
        K = H(K, V + b"\x00")
        V = H(K, V)


def k(q, x, hashfunc, h1, extra=b"", retry=0):
    g = candidates(q, x, hashfunc, h1, extra)
    for _ in range(retry):
        next(g)
    return next(g)


def selfcheck():
    """RFC 6979 appendix A.2.5 (P-256) and A.2.3 (P-192) vectors plus A.1
    (detailed example, 163-bit order). Raises AssertionError if the oracle
    is broken."""
    import hashlib

    q256 = 0xFFFFFFFF00000000FFFFFFFFFFFFFFFFBCE6FAADA7179E84F3B9CAC2FC632551
    x256 = 0xC9AFA9D845BA75166B5C215767B1D6934E50C3DB36E89B127B8A622B120F6721
    vec = [
        (hashlib.sha1, b"sample",
         0x882905F1227FD620FBF2ABF21244F0BA83D0DC3A9103DBBEE43A1FB858109DB4),
        (hashlib.sha256, b"sample",
         0xA6E3C57DD01ABE90086538398355DD4C3B17AA873382B0F24D6129493D8AAD60),
        (hashlib.sha512, b"test",
         0x6915D11632ACA3C40D5D51C08DAF9C555933819548784480E93499000D9F0B7F),
        (hashlib.sha384, b"test",
         0x16AEFFA357260B04B1DD199693960740066C1A8F3E8EDD79070AA914D361B3B8),
    ]
    for hf, msg, want in vec:
        assert k(q256, x256, hf, hf(msg).digest()) == want
    q192 = 0xFFFFFFFFFFFFFFFFFFFFFFFF99DEF836146BC9B1B4D22831
    x192 = 0x6FAB034934E4C0FC9AE67F5B5659A9D7D1FEFD187EE09FD4
    assert k(q192, x192, hashlib.sha256, hashlib.sha256(b"sample").digest()) \
        == 0x32B1B6D7D42A05CB449065727A84804FB1A3E34D8F261496
    assert k(q192, x192, hashlib.sha512, hashlib.sha512(b"test").digest()) \
        == 0x0758753A5254759C7CFBAD2E2D9B0792EEE44136C9480527
    # A.1: q of 163 bits (not byte aligned), SHA-256
    q163 = 0x4000000000000000000020108A2E0CC0D99F8A5EF
    x163 = 0x09A4D6792295A7F730FC3F2B49CBC0F62E862272F
    assert k(q163, x163, hashlib.sha256, hashlib.sha256(b"sample").digest()) \
        == 0x23AF4074C90A02B3FE61D286D5C87F425E6BDD81B
    # P-521 (521 bits) A.2.7 SHA-1 "sample"
    q521 = int(
        "1" + "F" * 65
        + "A51868783BF2F966B7FCC0148F709A5D03BB5C9B8899C47AEBB6FB71E91386409",
        16)
    x521 = int(
        "0FAD06DAA62BA3B25D2FB40133DA757205DE67F5BB0018FEE8C86E1B68C7E75C"
        "AA896EB32F1F47C70855836A6D16FCC1466F6D8FBEC67DB89EC0C08B0E996B83538",
        16)
    assert k(q521, x521, hashlib.sha1, hashlib.sha1(b"sample").digest()) == int(
        "089C071B419E1C2820962321787258469511958E80582E95D8378E0C2CCDB3CB"
        "42BEDE42F50E3FA3C71F5A76724281D31D9C89F0F91FC1BE4918DB1C03A5838D0F9",
        16)
