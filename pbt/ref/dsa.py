"""ECDSA per FIPS 186-4 / SEC 1, on top of ref.ec.  A domain is the tuple
(curve, G, n)."""
from . import ec


def bits2int(digest: bytes, nbits: int) -> int:
    """leftmost min(8*len, nbits) bits of digest as big-endian integer"""
    x = int.from_bytes(digest, "big")
    l = 8 * len(digest)
    if l > nbits:
        x >>= l - nbits
    return x


def sign(dom, d, k, e):
    """-> (r, s) or the string 'RS-ZERO'"""
    c, G, n = dom
    R = ec.mul(c, k, G)
    if R is None:
        return "RS-ZERO"
    r = R[0] % n
    if r == 0:
        return "RS-ZERO"
    s = pow(k, -1, n) * (e + r * d) % n
    if s == 0:
        return "RS-ZERO"
    return (r, s)


def verify(dom, Q, e, r, s):
    c, G, n = dom
    if not (1 <= r <= n - 1 and 1 <= s <= n - 1):
        return False
    w = pow(s, -1, n)
    u1 = e * w % n
    u2 = r * w % n
    R = ec.add(c, ec.mul(c, u1, G), ec.mul(c, u2, Q))
    if R is None:
        return False
    return R[0] % n == r


def verify_class(dom, Q, e, r, s):
    """like verify but says why: 'valid', 'range', 'R-infinity', 'mismatch'"""
    c, G, n = dom
    if not (1 <= r <= n - 1 and 1 <= s <= n - 1):
        return "range"
    w = pow(s, -1, n)
    R = ec.add(c, ec.mul(c, e * w % n, G), ec.mul(c, r * w % n, Q))
    if R is None:
        return "R-infinity"
    return "valid" if R[0] % n == r else "mismatch"
