"""SEC 1 v2 section 2.3.4 octet-string-to-point plus public key validation
(section 3.2.2.1), using ref.ec."""
from . import ec


def decode(c, n, data: bytes, allow_raw=True):
    """-> ('ok', (x, y)) or ('bad', reason).  c = (p, a, b), n = order of G.
    Subgroup membership is n*P == identity computed with the reference."""
    p = c[0]
    l = (p.bit_length() + 7) // 8
    L = len(data)
    if L == 2 * l and allow_raw:
        x = int.from_bytes(data[:l], "big")
        y = int.from_bytes(data[l:], "big")
        kind = "raw"
    elif L == 2 * l + 1 and data[0] in (4, 6, 7):
        x = int.from_bytes(data[1 : 1 + l], "big")
        y = int.from_bytes(data[1 + l :], "big")
        kind = {4: "uncompressed", 6: "hybrid", 7: "hybrid"}[data[0]]
        if data[0] in (6, 7) and (y & 1) != (data[0] & 1):
            return "bad", "hybrid-parity"
    elif L == l + 1 and data[0] in (2, 3) and (L != 2 * l or not allow_raw):
        x = int.from_bytes(data[1:], "big")
        if x >= p:
            return "bad", "x-range"
        pts = ec.lift_x(c, x)
        if not pts:
            return "bad", "non-residue"
        want = data[0] & 1
        cand = [P for P in pts if P[1] & 1 == want]
        if not cand:
            return "bad", "no-root-of-parity"  # y = 0 with prefix 03
        y = cand[0][1]
        kind = "compressed"
    else:
        return "bad", "length-or-prefix"
    if not (0 <= x < p and 0 <= y < p):
        return "bad", "range"
    if not ec.on_curve(c, (x, y)):
        return "bad", "off-curve"
    if ec.mul(c, n, (x, y)) is not None:
        return "bad", "subgroup"
    return "ok", (x, y)
