"""Strict X.690 DER reader/writer used as the oracle for the library's DER
codecs and key/signature containers.  Independent of ecdsa.der."""
import base64


class DERError(Exception):
    pass


# ---------------------------------------------------------------- writers
def enc_len(n: int) -> bytes:
    if n < 0x80:
        return bytes([n])
    body = n.to_bytes((n.bit_length() + 7) // 8, "big")
    return bytes([0x80 | len(body)]) + body


def tlv(tag: int, content: bytes) -> bytes:
    return bytes([tag]) + enc_len(len(content)) + content


def enc_int(v: int) -> bytes:
    if v >= 0:
        body = v.to_bytes(v.bit_length() // 8 + 1, "big")
    else:
        body = v.to_bytes((v + 1).bit_length() // 8 + 1, "big", signed=True)
    return tlv(0x02, body)


def enc_b128(n: int) -> bytes:
    out = [n & 0x7F]
    n >>= 7
    while n:
        out.append(0x80 | (n & 0x7F))
        n >>= 7
    return bytes(reversed(out))


def enc_oid(arcs) -> bytes:
    first, second = arcs[0], arcs[1]
    body = enc_b128(40 * first + second) + b"".join(enc_b128(a) for a in arcs[2:])
    return tlv(0x06, body)


def enc_bitstring(data: bytes, unused: int = 0) -> bytes:
    return tlv(0x03, bytes([unused]) + data)


def enc_octets(data: bytes) -> bytes:
    return tlv(0x04, data)


def enc_seq(*parts: bytes) -> bytes:
    return tlv(0x30, b"".join(parts))


def enc_ctx(tagno: int, content: bytes) -> bytes:
    return tlv(0xA0 + tagno, content)


# ---------------------------------------------------------------- readers
def read_len(data: bytes, pos: int):
    """-> (length, new_pos); strict minimal definite form"""
    if pos >= len(data):
        raise DERError("no length octet")
    b0 = data[pos]
    if b0 < 0x80:
        return b0, pos + 1
    k = b0 & 0x7F
    if k == 0:
        raise DERError("indefinite length")
    if pos + 1 + k > len(data):
        raise DERError("length octets cut short")
    body = data[pos + 1 : pos + 1 + k]
    if body[0] == 0:
        raise DERError("length with leading zero")
    n = int.from_bytes(body, "big")
    if n < 0x80:
        raise DERError("long form for short length")
    return n, pos + 1 + k


def read_tlv(data: bytes, pos: int = 0):
    """-> (tag, content, end); content must lie inside data"""
    if pos >= len(data):
        raise DERError("no tag octet")
    tag = data[pos]
    if tag & 0x1F == 0x1F:
        raise DERError("high tag number form")
    n, p = read_len(data, pos + 1)
    if p + n > len(data):
        raise DERError("content cut short")
    return tag, data[p : p + n], p + n


def expect(data: bytes, pos: int, tag: int):
    t, c, end = read_tlv(data, pos)
    if t != tag:
        raise DERError("tag %02x, wanted %02x" % (t, tag))
    return c, end


def dec_int(content: bytes) -> int:
    if not content:
        raise DERError("empty INTEGER")
    if len(content) > 1:
        if content[0] == 0 and content[1] < 0x80:
            raise DERError("non-minimal INTEGER")
        if content[0] == 0xFF and content[1] >= 0x80:
            raise DERError("non-minimal negative INTEGER")
    return int.from_bytes(content, "big", signed=True)


def dec_oid(content: bytes):
    if not content:
        raise DERError("empty OID")
    if content[-1] & 0x80:
        raise DERError("OID cut short")
    subs = []
    cur = 0
    start = True
    for b in content:
        if start and b == 0x80:
            raise DERError("padded sub-identifier")
        start = False
        cur = (cur << 7) | (b & 0x7F)
        if not b & 0x80:
            subs.append(cur)
            cur = 0
            start = True
    n0 = subs[0]
    first = 2 if n0 >= 80 else n0 // 40
    return (first, n0 - 40 * first) + tuple(subs[1:])


def dec_bitstring(content: bytes):
    if not content:
        raise DERError("empty BIT STRING content")
    unused = content[0]
    data = content[1:]
    if unused > 7:
        raise DERError("unused > 7")
    if unused and not data:
        raise DERError("unused bits in empty string")
    if unused and data[-1] & ((1 << unused) - 1):
        raise DERError("non-zero padding")
    return data, unused


def parse_tree(data: bytes, pos: int = 0, end=None):
    """fully strict recursive parse of a concatenation of TLVs"""
    end = len(data) if end is None else end
    out = []
    buf = data[:end]
    while pos < end:
        tag, content, nxt = read_tlv(buf, pos)
        if tag & 0x20:
            out.append((tag, parse_tree(content)))
        else:
            out.append((tag, content))
        pos = nxt
    return out


# ---------------------------------------------------------------- signatures
def enc_sig(r: int, s: int) -> bytes:
    return enc_seq(enc_int(r), enc_int(s))


def dec_sig(data: bytes):
    """strict Ecdsa-Sig-Value with non-negative integers, nothing trailing"""
    body, end = expect(data, 0, 0x30)
    if end != len(data):
        raise DERError("trailing bytes")
    rc, p = expect(body, 0, 0x02)
    sc, p2 = expect(body, p, 0x02)
    if p2 != len(body):
        raise DERError("trailing bytes in sequence")
    r, s = dec_int(rc), dec_int(sc)
    if r < 0 or s < 0:
        raise DERError("negative")
    return r, s


# ---------------------------------------------------------------- OIDs
# typed in from SEC 2 v2, RFC 5480, RFC 5639 -- not imported from the library
OID_EC_PUBLIC_KEY = (1, 2, 840, 10045, 2, 1)
OID_ECDH = (1, 3, 132, 1, 12)
OID_ECMQV = (1, 3, 132, 1, 13)
CURVE_OIDS = {
    "SECP112r1": (1, 3, 132, 0, 6),
    "SECP112r2": (1, 3, 132, 0, 7),
    "SECP128r1": (1, 3, 132, 0, 28),
    "SECP160r1": (1, 3, 132, 0, 8),
    "NIST192p": (1, 2, 840, 10045, 3, 1, 1),
    "NIST224p": (1, 3, 132, 0, 33),
    "NIST256p": (1, 2, 840, 10045, 3, 1, 7),
    "NIST384p": (1, 3, 132, 0, 34),
    "NIST521p": (1, 3, 132, 0, 35),
    "SECP256k1": (1, 3, 132, 0, 10),
    "BRAINPOOLP160r1": (1, 3, 36, 3, 3, 2, 8, 1, 1, 1),
    "BRAINPOOLP192r1": (1, 3, 36, 3, 3, 2, 8, 1, 1, 3),
    "BRAINPOOLP224r1": (1, 3, 36, 3, 3, 2, 8, 1, 1, 5),
    "BRAINPOOLP256r1": (1, 3, 36, 3, 3, 2, 8, 1, 1, 7),
    "BRAINPOOLP320r1": (1, 3, 36, 3, 3, 2, 8, 1, 1, 9),
    "BRAINPOOLP384r1": (1, 3, 36, 3, 3, 2, 8, 1, 1, 11),
    "BRAINPOOLP512r1": (1, 3, 36, 3, 3, 2, 8, 1, 1, 13),
}


# ---------------------------------------------------------------- keys
def enc_spki(curve_oid, point_bytes, alg_oid=OID_EC_PUBLIC_KEY):
    return enc_seq(
        enc_seq(enc_oid(alg_oid), enc_oid(curve_oid)),
        enc_bitstring(point_bytes, 0),
    )


def dec_spki(data: bytes):
    """-> (alg_oid, curve_oid, point_bytes); fully strict"""
    body, end = expect(data, 0, 0x30)
    if end != len(data):
        raise DERError("trailing bytes")
    alg, p = expect(body, 0, 0x30)
    bits, p2 = expect(body, p, 0x03)
    if p2 != len(body):
        raise DERError("trailing bytes in SPKI")
    o1, q = expect(alg, 0, 0x06)
    o2, q2 = expect(alg, q, 0x06)
    if q2 != len(alg):
        raise DERError("trailing bytes in AlgorithmIdentifier")
    pt, unused = dec_bitstring(bits)
    if unused:
        raise DERError("unused bits in key")
    return dec_oid(o1), dec_oid(o2), pt


def enc_ecprivkey(d_bytes, curve_oid=None, pub_point=None):
    parts = [enc_int(1), enc_octets(d_bytes)]
    if curve_oid is not None:
        parts.append(enc_ctx(0, enc_oid(curve_oid)))
    if pub_point is not None:
        parts.append(enc_ctx(1, enc_bitstring(pub_point, 0)))
    return enc_seq(*parts)


def dec_ecprivkey(data: bytes):
    """RFC 5915 -> (d_bytes, curve_oid or None, pub_point or None)"""
    body, end = expect(data, 0, 0x30)
    if end != len(data):
        raise DERError("trailing bytes")
    v, p = expect(body, 0, 0x02)
    if dec_int(v) != 1:
        raise DERError("version")
    d, p = expect(body, p, 0x04)
    oid = pub = None
    if p < len(body) and body[p] == 0xA0:
        c, p = expect(body, p, 0xA0)
        o, q = expect(c, 0, 0x06)
        if q != len(c):
            raise DERError("trailing in [0]")
        oid = dec_oid(o)
    if p < len(body) and body[p] == 0xA1:
        c, p = expect(body, p, 0xA1)
        b, q = expect(c, 0, 0x03)
        if q != len(c):
            raise DERError("trailing in [1]")
        pub, unused = dec_bitstring(b)
        if unused:
            raise DERError("unused bits")
    if p != len(body):
        raise DERError("trailing in ECPrivateKey")
    return d, oid, pub


def enc_pkcs8(ecpriv: bytes, curve_oid, version=0, alg_oid=OID_EC_PUBLIC_KEY,
              pub_point=None):
    parts = [
        enc_int(version),
        enc_seq(enc_oid(alg_oid), enc_oid(curve_oid)),
        enc_octets(ecpriv),
    ]
    if pub_point is not None:
        # [1] IMPLICIT BIT STRING (primitive context tag 1)
        parts.append(tlv(0x81, bytes([0]) + pub_point))
    return enc_seq(*parts)


def dec_pkcs8(data: bytes):
    """RFC 5958 -> (version, alg_oid, curve_oid, inner ECPrivateKey bytes)"""
    body, end = expect(data, 0, 0x30)
    if end != len(data):
        raise DERError("trailing bytes")
    v, p = expect(body, 0, 0x02)
    alg, p = expect(body, p, 0x30)
    key, p = expect(body, p, 0x04)
    # optional attributes [0] / publicKey [1]: must still be well-formed DER
    parse_tree(body, p)
    o1, q = expect(alg, 0, 0x06)
    o2, q2 = expect(alg, q, 0x06)
    if q2 != len(alg):
        raise DERError("trailing in AlgorithmIdentifier")
    return dec_int(v), dec_oid(o1), dec_oid(o2), key


# ---------------------------------------------------------------- PEM
def pem(label: str, der: bytes) -> bytes:
    b64 = base64.b64encode(der)
    lines = [b"-----BEGIN " + label.encode() + b"-----"]
    lines += [b64[i : i + 64] for i in range(0, len(b64), 64)]
    lines.append(b"-----END " + label.encode() + b"-----")
    return b"\n".join(lines) + b"\n"


def unpem(text: bytes, label: str) -> bytes:
    """strict RFC 7468-ish: exact armour lines, 64-column base64"""
    lines = text.split(b"\n")
    if lines[-1] != b"":
        raise DERError("no final newline")
    lines = lines[:-1]
    if lines[0] != b"-----BEGIN " + label.encode() + b"-----":
        raise DERError("begin line")
    if lines[-1] != b"-----END " + label.encode() + b"-----":
        raise DERError("end line")
    body = lines[1:-1]
    for ln in body[:-1]:
        if len(ln) != 64:
            raise DERError("line length")
    if body and not 1 <= len(body[-1]) <= 64:
        raise DERError("last line length")
    return base64.b64decode(b"".join(body), validate=True)
