"""C10 - decoders of external data fail only with their documented exceptions."""
import base64
import hashlib
import itertools
import signal

from hypothesis import strategies as st

from .. import gen
from ..ref import ec as rec
from ..ref import der as rder
from ..runner import run_hypothesis, exc_sig

from ecdsa import SigningKey, VerifyingKey, MalformedPointError, BadSignatureError, ECDH
from ecdsa.curves import UnknownCurveError
from ecdsa.der import UnexpectedDER
from ecdsa.ecdh import InvalidCurveError
from ecdsa import util as U

RULE = (
    "Inputs: for valid encodings of every kind (public key raw/uncompressed/compressed/hybrid strings, "
    "SubjectPublicKeyInfo DER and PEM, private key raw string, ECPrivateKey and PKCS#8 DER and PEM, raw / "
    "pair / DER signatures) on a small, a medium and a 521-bit curve: every truncation, tail, single-byte "
    "deletion, substitution from a tag/length alphabet (all 255 values in the thorough tier), insertion, every "
    "length field replaced by wrong / non-minimal / oversized values, tag swaps, dropped / duplicated elements, "
    "padded integers and OID arcs; PEM text mutations (missing / duplicated / wrong armour lines, non-base64 "
    "characters, broken padding, CRLF, str and bytes); hypothesis byte strings and TLV trees; inputs are also "
    "passed as bytearray / memoryview. Each input goes to every matching entry point (20 entry points incl. "
    "ECDH loaders and verify through each decoder). Oracle: the call returns a usable object or raises an "
    "exception from the documented set of that entry point. Non-trivial = input that is not the unmodified "
    "valid encoding; distinct by (entry point, bytes)."
)
ASSUMPTIONS = [
    "a per-call watchdog (60 s) turns a hang into a harness error (inconclusive), not a violation",
    "ECDH byte loaders are called with a curve set (documented precondition)",
]

KEY_EXC = (UnexpectedDER, MalformedPointError, UnknownCurveError)
SIG_EXC = (U.MalformedSignature, UnexpectedDER)


class Hang(Exception):
    pass


def _alarm(signum, frame):
    raise Hang()


def guarded(fn):
    signal.signal(signal.SIGALRM, _alarm)
    signal.setitimer(signal.ITIMER_REAL, 60)
    try:
        return fn()
    finally:
        signal.setitimer(signal.ITIMER_REAL, 0)


def _usable_vk(vk):
    s = vk.to_string()
    assert VerifyingKey.from_string(s, curve=vk.curve) == vk
    vk.to_der()


def _usable_sk(sk):
    s = sk.to_string()
    assert SigningKey.from_string(s, curve=sk.curve) == sk
    sk.to_der()


def _usable_rs(rs):
    r, s = rs
    assert isinstance(r, int) and isinstance(s, int)


_vk_fixed = {}


def _fixed_vk(cname):
    if cname not in _vk_fixed:
        d = gen.dom(cname)
        _vk_fixed[cname] = SigningKey.from_secret_exponent(d.n // 3 + 1, curve=d.lib).get_verifying_key()
    return _vk_fixed[cname]


def entry_points(cname):
    d = gen.dom(cname)
    cv = d.lib
    n = d.n
    vk = _fixed_vk(cname)
    eps = {
        "VerifyingKey.from_string": (lambda x: VerifyingKey.from_string(x, curve=cv), (MalformedPointError,), _usable_vk),
        "VerifyingKey.from_der": (lambda x: VerifyingKey.from_der(x), KEY_EXC, _usable_vk),
        "VerifyingKey.from_pem": (lambda x: VerifyingKey.from_pem(x), KEY_EXC, _usable_vk),
        "SigningKey.from_string": (lambda x: SigningKey.from_string(x, curve=cv), (MalformedPointError,), _usable_sk),
        "SigningKey.from_der": (lambda x: SigningKey.from_der(x), KEY_EXC, _usable_sk),
        "SigningKey.from_pem": (lambda x: SigningKey.from_pem(x), KEY_EXC, _usable_sk),
        "sigdecode_string": (lambda x: U.sigdecode_string(x, n), SIG_EXC, _usable_rs),
        "sigdecode_der": (lambda x: U.sigdecode_der(x, n), SIG_EXC, _usable_rs),
        "verify/string": (lambda x: vk.verify(x, b"msg", sigdecode=U.sigdecode_string), (BadSignatureError,), None),
        "verify/der": (lambda x: vk.verify(x, b"msg", sigdecode=U.sigdecode_der), (BadSignatureError,), None),
        "verify_digest/der": (lambda x: vk.verify_digest(x, b"\x01" * 8, sigdecode=U.sigdecode_der),
                              (BadSignatureError,), None),
        "ECDH.load_private_key_bytes": (lambda x: ECDH(curve=cv).load_private_key_bytes(x),
                                        (MalformedPointError, InvalidCurveError), _usable_vk),
        "ECDH.load_private_key_der": (lambda x: ECDH(curve=cv).load_private_key_der(x),
                                      KEY_EXC + (InvalidCurveError,), _usable_vk),
        "ECDH.load_private_key_pem": (lambda x: ECDH(curve=cv).load_private_key_pem(x),
                                      KEY_EXC + (InvalidCurveError,), _usable_vk),
        "ECDH.load_received_public_key_bytes": (lambda x: ECDH(curve=cv).load_received_public_key_bytes(x),
                                                (MalformedPointError, InvalidCurveError), None),
        "ECDH.load_received_public_key_der": (lambda x: ECDH(curve=cv).load_received_public_key_der(x),
                                              KEY_EXC + (InvalidCurveError,), None),
        "ECDH.load_received_public_key_pem": (lambda x: ECDH(curve=cv).load_received_public_key_pem(x),
                                              KEY_EXC + (InvalidCurveError,), None),
    }
    return eps


def strings_entry(cname):
    n = gen.dom(cname).n
    vk = _fixed_vk(cname)
    return {
        "sigdecode_strings": (lambda x: U.sigdecode_strings(x, n), SIG_EXC, _usable_rs),
        "verify/strings": (lambda x: vk.verify(x, b"msg", sigdecode=U.sigdecode_strings), (BadSignatureError,), None),
    }


def wrap(data, mode, pem=False):
    """bytes-like variants for binary entry points; PEM loaders are documented
    to take text (str) or bytes only"""
    if isinstance(data, list):
        return [wrap(x, mode) for x in data]
    if pem:
        if mode % 2 == 1:
            try:
                return data.decode("utf-8")
            except UnicodeDecodeError:
                return data
        return data
    if mode == 1:
        return bytearray(data)
    if mode == 2:
        return memoryview(data)
    if mode == 3:
        return memoryview(bytearray(data))      # writable view
    if mode == 4:
        import array
        return array.array("B", data)
    if mode == 5:
        return memoryview(bytearray(data)).cast("b")     # signed char view
    if mode == 6 and len(data) % 2 == 0 and len(data) >= 4:
        return memoryview(bytearray(data)).cast("B", shape=[len(data) // 2, 2])      # two-dimensional view
    return data


def probe(ctx, cname, ep_name, ep, data, mode=0, valid=False, kindhint=""):
    fn, allowed, usable = ep
    ctx.ev()
    case = {"curve": cname, "entry": ep_name, "mode": mode,
            "data": [x.hex() for x in data] if isinstance(data, list) else data.hex()}
    arg = wrap(data, mode, pem=ep_name.endswith("_pem"))
    try:
        res = guarded(lambda: fn(arg))
    except allowed:
        ctx.event("%s:documented-exception" % ep_name.split(".")[0])
        res = None
    except Hang:
        raise RuntimeError("watchdog: %s did not return within 60 s on %r" % (ep_name, case))
    except Exception as e:
        ctx.fail("%s/%s" % (ep_name, exc_sig(e)), case, "%r [%s]" % (e, kindhint))
        return
    else:
        ctx.event("%s:returned" % ep_name.split(".")[0])
        if usable is not None and res is not None:
            try:
                usable(res)
            except Exception as e:
                ctx.fail("%s/returned-unusable-object/%s" % (ep_name, type(e).__name__), case, repr(e))
    if not valid:
        ctx.nontrivial((ep_name, repr(case["data"])))


# ---------------------------------------------------------------- seeds
def seeds_for(cname):
    d = gen.dom(cname)
    dd = d.n // 5 + 7
    Q = rec.mul(d.c, dd, d.G)
    l = d.plen
    xb, yb = Q[0].to_bytes(l, "big"), Q[1].to_bytes(l, "big")
    nl = (d.n.bit_length() + 7) // 8
    db = dd.to_bytes(nl, "big")
    oid = rder.CURVE_OIDS[cname]
    pu = b"\x04" + xb + yb
    pc = bytes((2 + (Q[1] & 1),)) + xb
    ph = bytes((6 + (Q[1] & 1),)) + xb + yb
    ecpriv = rder.enc_ecprivkey(db, oid, pu)
    spki = rder.enc_spki(oid, pu)
    pk8 = rder.enc_pkcs8(ecpriv, oid, version=0)
    r, s = d.n // 7 + 3, d.n - 5
    out = {
        "vk-string": [("VerifyingKey.from_string", xb + yb), ("VerifyingKey.from_string", pu),
                      ("VerifyingKey.from_string", pc), ("VerifyingKey.from_string", ph),
                      ("ECDH.load_received_public_key_bytes", pu), ("ECDH.load_received_public_key_bytes", pc)],
        "vk-der": [(e, x) for e in ("VerifyingKey.from_der", "ECDH.load_received_public_key_der")
                   for x in (spki, rder.enc_spki(oid, pc), rder.enc_spki(oid, ph))],
        "sk-string": [("SigningKey.from_string", db), ("ECDH.load_private_key_bytes", db)],
        "sk-der": [(e, x) for e in ("SigningKey.from_der", "ECDH.load_private_key_der")
                   for x in (ecpriv, pk8, rder.enc_ecprivkey(db, oid, None),
                             rder.enc_pkcs8(rder.enc_ecprivkey(db, None, None), oid, version=1, pub_point=pu))],
        "sig-string": [(e, r.to_bytes(nl, "big") + s.to_bytes(nl, "big"))
                       for e in ("sigdecode_string", "verify/string")],
        "sig-der": [(e, rder.enc_sig(r, s)) for e in ("sigdecode_der", "verify/der", "verify_digest/der")],
        "vk-pem": [(e, rder.pem("PUBLIC KEY", spki)) for e in ("VerifyingKey.from_pem", "ECDH.load_received_public_key_pem")],
        "sk-pem": [(e, rder.pem(lbl, x)) for e in ("SigningKey.from_pem", "ECDH.load_private_key_pem")
                   for lbl, x in (("EC PRIVATE KEY", ecpriv), ("PRIVATE KEY", pk8))],
    }
    return out


def pem_mutations(pem: bytes, der: bytes, label: str):
    lines = pem.split(b"\n")
    yield "no-begin", b"\n".join(lines[1:])
    yield "no-end", b"\n".join(lines[:-2]) + b"\n"
    yield "no-armour", b"\n".join(lines[1:-2]) + b"\n"
    yield "dup-begin", lines[0] + b"\n" + pem
    yield "twice", pem + pem
    yield "crlf", pem.replace(b"\n", b"\r\n")
    yield "no-final-newline", pem.rstrip(b"\n")
    yield "empty", b""
    yield "only-begin", lines[0] + b"\n"
    yield "only-armour", lines[0] + b"\n" + lines[-2] + b"\n"
    yield "wrong-label", pem.replace(label.encode(), b"RSA PRIVATE KEY")
    yield "lower-label", pem.replace(b"BEGIN", b"begin")
    yield "leading-junk", b"junk\n" + pem
    yield "trailing-junk", pem + b"junk\n"
    yield "leading-space", b"  " + pem
    yield "blank-lines", pem.replace(b"\n", b"\n\n")
    body = b"".join(lines[1:-2])
    for i in (0, 1, len(body) // 2, len(body) - 1):
        for ch in (b"!", b"-", b" ", b"=", b"\x00", b"\xff", b"\xc3\xa9"):
            nb = body[:i] + ch + body[i + 1:]
            yield "bad-char", lines[0] + b"\n" + nb + b"\n" + lines[-2] + b"\n"
    for cut in (1, 2, 3, 5):
        yield "b64-cut", lines[0] + b"\n" + body[:-cut] + b"\n" + lines[-2] + b"\n"
        yield "b64-cut-front", lines[0] + b"\n" + body[cut:] + b"\n" + lines[-2] + b"\n"
    yield "b64-extra-pad", lines[0] + b"\n" + body + b"==\n" + lines[-2] + b"\n"
    yield "b64-one-line", lines[0] + b"\n" + body + b"\n" + lines[-2] + b"\n"
    yield "b64-76col", lines[0] + b"\n" + b"\n".join(body[i:i + 76] for i in range(0, len(body), 76)) + b"\n" + lines[-2] + b"\n"
    yield "ec-params-section", b"-----BEGIN EC PARAMETERS-----\nBgUrgQQAIQ==\n-----END EC PARAMETERS-----\n" + pem
    yield "encrypted-header", lines[0] + b"\nProc-Type: 4,ENCRYPTED\nDEK-Info: AES-128-CBC,00\n\n" + b"\n".join(lines[1:])
    # DER-level mutations inside an intact armour
    for kind, m in itertools.chain(gen.length_mutations(der), (x for x in gen.mutations(der) if x[0] in ("trunc", "del"))):
        yield "der-" + kind, rder.pem(label, m)


def units(tier, seed):
    q = tier == "quick"
    out = []
    curves = ["SECP112r1", "NIST192p", "NIST521p"] if q else ["SECP112r1", "SECP112r2", "NIST192p", "NIST256p",
                                                              "BRAINPOOLP320r1", "NIST521p"]
    for cn in curves:
        for grp in ("vk-string", "vk-der", "sk-string", "sk-der", "sig-string", "sig-der"):
            out.append(("mutate", {"curve": cn, "group": grp, "full": not q}))
        out.append(("pem", {"curve": cn}))
        out.append(("strings", {"curve": cn}))
    for grp in ("vk-string", "vk-der", "sk-der", "sk-string", "sig-string"):
        out.append(("mutate", {"curve": "SECP160r1", "group": grp, "full": False}))
    out.append(("mutate", {"curve": "NIST224p", "group": "vk-string", "full": not q}))
    out.append(("mutate", {"curve": "NIST224p", "group": "vk-der", "full": False}))
    for i in range(4):
        out.append(("random", {"curve": curves[i % len(curves)], "examples": 1500 if q else 40000, "label": "r%d" % i}))
    out.append(("cross", {"curves": curves}))
    if not q:
        for cn in ("SECP112r1", "NIST192p"):
            for kind in ("empty", "seeded"):
                out.append(("atheris", {"runs": 400000, "curve": cn, "corpus": kind}))
    return out


def run_unit(ctx, name, **kw):
    if name == "mutate":
        cname = kw["curve"]
        eps = entry_points(cname)
        seen = set()
        for ep_name, seed in seeds_for(cname)[kw["group"]]:
            for md in range(7):
                probe(ctx, cname, ep_name, eps[ep_name], seed, mode=md, valid=True)
            big = len(seed) > 120
            muts = itertools.chain(
                gen.mutations(seed, full_subst=kw["full"] and not big,
                              stride=(6 if not kw["full"] else 2) if big else (2 if len(seed) > 60 and not kw["full"] else 1)),
                gen.length_mutations(seed) if "der" in kw["group"] else ())
            i = 0
            for kind, m in muts:
                if (ep_name, m) in seen:
                    continue
                seen.add((ep_name, m))
                i += 1
                ctx.event("mut:" + kind)
                probe(ctx, cname, ep_name, eps[ep_name], m, mode=i % 7, kindhint=kind)
            ctx.sample({"curve": cname, "entry": ep_name, "seed": seed.hex()[:80], "mutants": i})
    elif name == "pem":
        cname = kw["curve"]
        eps = entry_points(cname)
        sd = seeds_for(cname)
        seen = set()
        for grp, label in (("vk-pem", "PUBLIC KEY"), ("sk-pem", None)):
            for ep_name, pem in sd[grp]:
                lbl = label or ("EC PRIVATE KEY" if b"EC PRIVATE" in pem else "PRIVATE KEY")
                der = rder.unpem(pem, lbl)
                probe(ctx, cname, ep_name, eps[ep_name], pem, valid=True)
                probe(ctx, cname, ep_name, eps[ep_name], pem, mode=3, valid=True)
                i = 0
                for kind, m in pem_mutations(pem, der, lbl):
                    if (ep_name, m) in seen:
                        continue
                    seen.add((ep_name, m))
                    i += 1
                    ctx.event("pem:" + kind.split("-")[0])
                    probe(ctx, cname, ep_name, eps[ep_name], m, mode=(0, 3, 1)[i % 3], kindhint=kind)
                ctx.sample({"curve": cname, "entry": ep_name, "pem": pem.decode()[:100], "mutants": i})
    elif name == "strings":
        cname = kw["curve"]
        eps = strings_entry(cname)
        n = gen.dom(cname).n
        l = (n.bit_length() + 7) // 8
        rb, sb = (n // 3).to_bytes(l, "big"), (n // 7).to_bytes(l, "big")
        pool = [b"", rb, sb, rb[1:], rb + b"\x00", b"\x00" * l, b"\xff" * l, b"\xff" * (l + 1)]
        for cnt in range(0, 4):
            for parts in itertools.product(pool, repeat=cnt):
                for ep_name, ep in eps.items():
                    probe(ctx, cname, ep_name, ep, list(parts), mode=cnt % 3)
        ctx.sample({"curve": cname, "entry": "sigdecode_strings", "pool": [p.hex() for p in pool]})
    elif name == "random":
        cname = kw["curve"]
        eps = entry_points(cname)
        names = list(eps)
        tagst = st.sampled_from([0x02, 0x03, 0x04, 0x05, 0x06, 0x30, 0x31, 0xA0, 0xA1, 0x80, 0x81])

        def tlv(depth):
            leaf = st.tuples(tagst, st.binary(max_size=12)).map(lambda t: rder.tlv(t[0], t[1]))
            special = st.sampled_from([rder.enc_int(1), rder.enc_int(0), rder.enc_oid(rder.OID_EC_PUBLIC_KEY),
                                       rder.enc_oid(rder.CURVE_OIDS[cname]), rder.enc_oid((1, 3, 132, 0, 99)),
                                       b"\x03\x02\x00\x04", b"\x04\x00", b"\x30\x00", b"\x02\x01\x80", b"\x06\x01\x80"])
            if depth == 0:
                return st.one_of(leaf, special)
            sub = st.lists(st.deferred(lambda: tlv(depth - 1)), max_size=4).map(b"".join)
            return st.one_of(leaf, special, st.tuples(st.sampled_from([0x30, 0xA0, 0xA1, 0x04, 0x03]), sub).map(
                lambda t: rder.tlv(t[0], (b"\x00" if t[0] == 3 else b"") + t[1])))

        strat = st.tuples(st.sampled_from(names),
                          st.one_of(st.binary(max_size=80), tlv(3), tlv(2).map(lambda x: rder.pem("PRIVATE KEY", x)),
                                    tlv(2).map(lambda x: rder.pem("PUBLIC KEY", x))),
                          st.integers(0, 3))

        def body(c, v):
            ep_name, data, mode = v
            probe(c, cname, ep_name, eps[ep_name], data, mode=mode, kindhint="random")
            c.sample({"curve": cname, "entry": ep_name, "data": data.hex()[:80]})
        run_hypothesis(ctx, kw["label"], strat, body, kw["examples"])
    elif name == "cross":
        # every seed of every kind offered to every entry point (wrong container for the entry)
        for cname in kw["curves"][:2]:
            eps = entry_points(cname)
            sd = seeds_for(cname)
            allseeds = sorted({x for grp in sd.values() for _, x in grp})
            for ep_name, ep in eps.items():
                for s in allseeds:
                    probe(ctx, cname, ep_name, ep, s, kindhint="cross")
        ctx.sample({"note": "every valid encoding of any kind offered to every entry point"})
    elif name == "atheris":
        from . import c10_fuzz
        c10_fuzz.campaign(ctx, kw["runs"], (kw["curve"],), (kw["corpus"],))
    else:
        raise ValueError(name)


def replay(ctx, case):
    cname = case["curve"]
    eps = dict(entry_points(cname))
    eps.update(strings_entry(cname))
    data = case["data"]
    data = [bytes.fromhex(x) for x in data] if isinstance(data, list) else bytes.fromhex(data)
    probe(ctx, cname, case["entry"], eps[case["entry"]], data, mode=case.get("mode", 0))
