"""C15 - modular inverse, modular square root, Jacobi symbol."""
import math

from hypothesis import strategies as st

from .. import gen
from ..ref import nt as RN
from ..runner import run_hypothesis, exc_sig

from ecdsa import numbertheory as NT

RULE = (
    "inverse_mod: every modulus m in a range with every a in [-2m,3m] coprime to m, and large m "
    "(field primes, group orders, random to 600 bits) with a of either sign and up to twice the "
    "size; oracle a*i = 1 (mod m), 0 <= i < m. square_root_mod_prime: every odd prime below a "
    "bound with EVERY a in [0,p-1], the 17 field primes, prime orders and generated large primes "
    "of each class 3 mod 4 / 5 mod 8 / 1 mod 8 with a = b^2 (residue by construction) and Euler "
    "non-residues; oracle r*r = a, 0 <= r < p, SquareRootError iff non-residue. jacobi: every odd "
    "n in a range with every a in [0,n) and out-of-range a, and n built from generated primes so "
    "the factorisation is known; oracle product of Legendre symbols. For p = 1 mod 8 additionally the residues "
    "with the deepest parameter search (b = 2, 3, ... until b^2-4a is a non-residue), found by scanning 2^18..2^22 "
    "squares per prime with the reference Legendre symbol. Non-trivial = everything "
    "except a in {0,1}; distinct by (function, modulus, a) - enumerations do not repeat."
)
ASSUMPTIONS = [
    "large 'primes' used as moduli are strong probable primes to 28 bases (error < 2^-56) or known primes",
    "inverse is only queried for gcd(a, m) = 1, m >= 2",
]


def check_inverse(ctx, a, m, enum=False):
    ctx.ev()
    case = {"fn": "inverse", "a": a, "m": m}
    ctx.case_sample(case)
    try:
        i = NT.inverse_mod(a, m)
    except Exception as e:
        ctx.fail("inverse/exception/%s" % type(e).__name__, case, repr(e))
        return
    if not (0 <= i < m) or (a * i) % m != 1 % m:
        cls = "neg" if a < 0 else ("big" if a >= m else "reduced")
        ctx.fail("inverse/wrong/%s" % cls, case, "got %r" % (i,))
    else:
        try:
            back = NT.inverse_mod(i, m)
        except Exception as e:
            ctx.fail("inverse/exception-on-the-way-back/%s" % type(e).__name__, case, repr(e))
            return
        if back != a % m or not (0 <= back < max(m, 1)):
            ctx.fail("inverse/inverse-of-inverse-wrong/%s" % ("neg" if a < 0 else ("big" if a >= m else "reduced")), case,
                     "inverse_mod(%d, m) = %d, then inverse_mod(%d, m) = %r, expected %d" % (a, i, i, back, a % m))
    if a not in (0, 1):
        ctx.event("inverse:" + ("neg" if a < 0 else ("big" if a >= m else "reduced")))
        if enum:
            ctx.nontrivial_enum()
        else:
            ctx.nontrivial(("inv", a, m))


def check_sqrt(ctx, a, p, enum=False):
    ctx.ev()
    case = {"fn": "sqrt", "a": a, "p": p}
    ctx.case_sample(case)
    cls = "3mod4" if p % 4 == 3 else ("5mod8" if p % 8 == 5 else "1mod8")
    is_res = a == 0 or pow(a, (p - 1) // 2, p) == 1
    try:
        r = NT.square_root_mod_prime(a, p)
        got = "root"
    except NT.SquareRootError:
        got = "noroot"
    except Exception as e:
        ctx.fail("sqrt/exception/%s/%s" % (cls, exc_sig(e)), case, repr(e))
        return
    if is_res:
        if got != "root":
            ctx.fail("sqrt/residue-rejected/%s" % cls, case, "")
        elif not (0 <= r < p) or (r * r - a) % p != 0:
            ctx.fail("sqrt/wrong-root/%s" % cls, case, "got %r" % (r,))
    else:
        if got != "noroot":
            ctx.fail("sqrt/non-residue-accepted/%s" % cls, case, "got %r" % (r,))
    ctx.event("sqrt:%s:%s" % (cls, "res" if is_res else "nonres"))
    if a not in (0, 1):
        if enum:
            ctx.nontrivial_enum()
        else:
            ctx.nontrivial(("sqrt", a, p))


def check_jacobi(ctx, a, n, factors, enum=False):
    ctx.ev()
    case = {"fn": "jacobi", "a": a, "n": n, "factors": [list(f) for f in factors]}
    want = RN.jacobi_by_factors(a, factors)
    try:
        got = NT.jacobi(a, n)
    except Exception as e:
        ctx.fail("jacobi/exception/%s" % type(e).__name__, case, repr(e))
        return
    if got != want:
        kind = "prime" if len(factors) == 1 and factors[0][1] == 1 else "composite"
        ctx.fail("jacobi/wrong/%s" % kind, case, "got %r want %r" % (got, want))
    ctx.event("jacobi:%d" % want)
    if a % n not in (0, 1):
        if enum:
            ctx.nontrivial_enum()
        else:
            ctx.nontrivial(("jac", a, n))


_EXTRA_BASES = (41, 43, 47, 53, 59, 61, 67, 71, 73, 79, 83, 89, 97, 101, 103, 107)


def probable_prime(n):
    if not RN.is_prime(n):
        return False
    if n < RN.MR_EXACT_BELOW:
        return True
    d, s = n - 1, 0
    while d % 2 == 0:
        d //= 2
        s += 1
    for a in _EXTRA_BASES:
        x = pow(a, d, n)
        if x in (1, n - 1):
            continue
        for _ in range(s - 1):
            x = x * x % n
            if x == n - 1:
                break
        else:
            return False
    return True


def prime_in_class(start, residue, modulus):
    """smallest probable prime >= start congruent to residue mod modulus"""
    n = start + ((residue - start) % modulus)
    while not probable_prime(n):
        n += modulus
    return n


KNOWN_PRIMES = [
    2 ** 61 - 1, 2 ** 89 - 1, 2 ** 127 - 1, 2 ** 255 - 19, 2 ** 521 - 1, 2 ** 607 - 1,
    2 ** 64 - 59, 2 ** 448 - 2 ** 224 - 1,
]


def big_primes():
    ps = set(KNOWN_PRIMES)
    for c in gen.NAMED:
        d = gen.named(c)
        ps.add(d.p)
        if RN.is_prime(d.n) or d.n > RN.MR_EXACT_BELOW:
            ps.add(d.n)
    return sorted(ps)


def deep_cipolla_residues(p, count, keep, start=2):
    """residues a = t^2 mod p (p = 1 mod 8) ranked by how many consecutive b = 2, 3, ... make
    b^2 - 4a a square: exactly the inputs for which the polynomial-arithmetic branch has to search
    longest for its parameter.  A residue of depth k occurs with probability 2^-k, so it is found by
    scanning with the reference Legendre symbol, not by waiting for a random test to hit it."""
    h = (p - 1) // 2
    best = []
    for t in range(start, start + count):
        a = t * t % p
        if a == 0:
            continue
        b = 2
        while pow(b * b - 4 * a, h, p) != p - 1:
            b += 1
            if b > 200:
                break
        depth = b - 2
        if len(best) < keep or depth > best[0][0]:
            best.append((depth, a))
            best.sort()
            if len(best) > keep:
                best.pop(0)
    return best


def smooth_residue_prime(B, kstart=1):
    """a prime p = 1 + 8*k*prod(odd primes <= B): p = 1 mod 8 and p = 1 mod q for every odd prime q <= B, so
    -1, 2 and every prime <= B - hence every B-smooth integer - is a square mod p.  For a = c^2 the
    discriminants b^2 - 4a = (b-2c)(b+2c) are then squares for all b < B - 2c: the parameter search of the
    p = 1 mod 8 branch has to go beyond B."""
    m = 8
    for qq in RN.sieve(B + 1):
        if qq > 2:
            m *= qq
    k = kstart
    while not probable_prime(1 + k * m):
        k += 1
    return 1 + k * m


def units(tier, seed):
    q = tier == "quick"
    out = []
    out.append(("sqrt-smooth", {"bounds": [13, 31, 61, 127] if q else [13, 31, 61, 127, 251, 509]}))
    deep_primes = [prime_in_class(1 << 20, 1, 8), prime_in_class(1 << 24, 1, 8), prime_in_class(1 << 27, 1, 16),
                   prime_in_class(1 << 30, 1, 8), prime_in_class(3 << 29, 1, 32), prime_in_class(1 << 31, 1, 8),
                   prime_in_class(5 << 28, 1, 8), prime_in_class(7 << 27, 1, 64)]
    for i, dp in enumerate(deep_primes if not q else deep_primes[:6]):
        out.append(("sqrt-deep", {"p": dp, "count": (1 << 20) if q else (1 << 23), "start": 2 + 7919 * seed}))
    for i in range(4):
        out.append(("inverse-small", {"hi": 150 if q else 400, "shard": i, "nshards": 4}))
    for i in range(8):
        out.append(("sqrt-small", {"hi": 900 if q else 5000, "shard": i, "nshards": 8}))
    for i in range(4):
        out.append(("jacobi-small", {"hi": 1500 if q else 8000, "shard": i, "nshards": 4}))
    out.append(("sqrt-curve-primes", {"per": 12 if q else 120}))
    out.append(("sqrt-generated", {"examples": 150 if q else 3000}))
    out.append(("inverse-large", {"examples": 3000 if q else 60000}))
    out.append(("jacobi-large", {"examples": 1500 if q else 30000}))
    out.append(("interleaved", {"stride": 1, "max": 5000 if q else 60000}))
    out.append(("faults", {"jobset": 'nt', "arg": None, "examples": 40 if tier == "quick" else 1500, "triples": 400 if tier == "quick" else 20000}))
    return out


def _interleaved_jobs():
    # two primes = 1 mod 8 (polynomial branch of the square root) with the same parameter-search depth
    # class, different residues; plus inverse / jacobi on unrelated arguments
    return {
        "a": lambda: [NT.square_root_mod_prime(2, 257), NT.square_root_mod_prime(64 * 64 % 193, 193), NT.inverse_mod(-7, 257),
                      NT.jacobi(5 << 70, 1009 * 1013)],
        "b": lambda: [NT.square_root_mod_prime(3 * 3, 313), NT.square_root_mod_prime(11, 257), NT.inverse_mod(90001, 193),
                      NT.jacobi(-3, 257)],
    }


def run_unit(ctx, name, **kw):
    if name == "faults":
        from . import faults
        faults.run_set(ctx, **kw)
        return
    if name == "interleaved":
        from .purity import interleaved_pure
        jobs = _interleaved_jobs()
        for k, f in jobs.items():
            for r, (a, p) in zip(f()[:2], (((2, 257), (64 * 64 % 193, 193)) if k == "a" else ((9, 313), (11, 257)))):
                if r * r % p != a % p:
                    raise RuntimeError("sequential square root wrong: harness job invalid")
        interleaved_pure(ctx, "numbertheory", [NT], jobs, kw["stride"], max_schedules=kw["max"])
        return
    if name == "inverse-small":
        for m in range(2, kw["hi"] + 1):
            if m % kw["nshards"] != kw["shard"]:
                continue
            for a in range(-2 * m, 3 * m + 1):
                if math.gcd(a, m) == 1:
                    check_inverse(ctx, a, m, enum=True)
        ctx.exhausted("inverse: all m in [2,%d] x all coprime a in [-2m,3m]" % kw["hi"])
        ctx.sample({"fn": "inverse", "m": kw["hi"], "a": "all coprime in [-2m,3m]"})
    elif name == "sqrt-small":
        primes = [p for p in RN.sieve(kw["hi"]) if p > 2]
        for i, p in enumerate(primes):
            if i % kw["nshards"] != kw["shard"]:
                continue
            for a in range(p):
                check_sqrt(ctx, a, p, enum=True)
        ctx.exhausted("sqrt: all odd primes < %d x all a in [0,p-1]" % kw["hi"])
        ctx.sample({"fn": "sqrt", "p": primes[-1], "a": "all"})
    elif name == "jacobi-small":
        for n in range(3, kw["hi"], 2):
            if (n // 2) % kw["nshards"] != kw["shard"]:
                continue
            f = RN.factor(n)
            for a in range(n):
                check_jacobi(ctx, a, n, f, enum=True)
            for a in (-1, -2, -n - 3, n + 2, 2 * n + 5, 7 * n + 3, -5 * n + 1):
                check_jacobi(ctx, a, n, f)
        ctx.exhausted("jacobi: all odd n in [3,%d) x all a in [0,n)" % kw["hi"])
        ctx.sample({"fn": "jacobi", "n": kw["hi"] - 1 | 1, "a": "all"})
    elif name == "sqrt-smooth":
        for B in kw["bounds"]:
            for ks in (1, 1000):
                p = smooth_residue_prime(B, ks)
                for cc in range(1, 12):
                    check_sqrt(ctx, cc * cc % p, p)
                    check_sqrt(ctx, (p - cc * cc) % p, p)       # -c^2 is a residue too (p = 1 mod 4)
                ctx.event("sqrt-smooth:B=%d" % B)
            ctx.sample({"fn": "sqrt", "p": p, "a": 4, "note": "every prime <= %d is a residue mod p" % B})
    elif name == "sqrt-deep":
        p = kw["p"]
        best = deep_cipolla_residues(p, kw["count"], 40, kw["start"])
        for depth, a in best:
            check_sqrt(ctx, a, p)
            ctx.event("sqrt-deep:depth>=%d" % (depth // 4 * 4))
        ctx.sample({"fn": "sqrt", "p": p, "a": best[-1][1], "cipolla_search_depth": best[-1][0],
                    "scanned": kw["count"]})
    elif name == "sqrt-curve-primes":
        import hashlib
        for p in big_primes():
            if p % 2 == 0:
                continue
            for i in range(kw["per"]):
                b = int.from_bytes(hashlib.sha512(b"%d/%d/%d" % (ctx.seed, p, i)).digest() * 2, "big") % p
                check_sqrt(ctx, b * b % p, p)          # residue by construction
                check_sqrt(ctx, b, p)                  # either
                # a non-residue by Euler search
                x = b
                while pow(x, (p - 1) // 2, p) != p - 1:
                    x = (x + 1) % p
                check_sqrt(ctx, x, p)
            for a in (0, 1, 2, 3, 4, p - 1, p - 2, (p - 1) // 2, (p + 1) // 2):
                check_sqrt(ctx, a, p)
            ctx.sample({"fn": "sqrt", "p": p, "class": p % 8})
    elif name == "sqrt-generated":
        def body(c, v):
            bits, x, cls, b, mode = v
            start = (1 << (bits - 1)) + x % (1 << (bits - 1))
            res, mod = {0: (3, 4), 1: (5, 8), 2: (1, 8), 3: (1, 16), 4: (1, 64)}[cls]
            p = prime_in_class(start, res, mod)
            b %= p
            if mode == 0:
                a = b * b % p
            elif mode == 1:
                a = b
                while pow(a, (p - 1) // 2, p) != p - 1:
                    a = (a + 1) % p
            else:
                a = b
            check_sqrt(c, a, p)
            c.sample({"fn": "sqrt", "p": p, "a": a})
        strat = st.tuples(st.integers(10, 300), st.integers(0, 1 << 300), st.integers(0, 4),
                          st.integers(0, 1 << 310), st.integers(0, 2))
        run_hypothesis(ctx, "sqrtgen", strat, body, kw["examples"])
    elif name == "inverse-large":
        mods = big_primes() + [gen.named(c).n for c in gen.NAMED]

        def body(c, v):
            mi, mr, a, scale, sign = v
            m = mods[mi % len(mods)] if mi >= 0 else max(2, mr)
            a = a % (m << scale) if scale else a % m
            if sign:
                a = -a
            if a == 0 or math.gcd(a, m) != 1:
                return
            check_inverse(c, a, m)
            c.sample({"fn": "inverse", "a": a, "m": m})
        strat = st.tuples(st.integers(-20, 60), st.integers(2, 1 << 600), st.integers(1, 1 << 1300),
                          st.sampled_from([0, 0, 1, 8, 600]), st.booleans())
        run_hypothesis(ctx, "invlarge", strat, body, kw["examples"])
    elif name == "jacobi-large":
        smallp = [p for p in RN.sieve(2000) if p > 2]
        # numerators with long runs of trailing zero bits (the factor-of-two rule applied e times), odd and even e,
        # against moduli of every class mod 8
        mods = [(3, [(3, 1)]), (5, [(5, 1)]), (7, [(7, 1)]), (17, [(17, 1)]), (15, [(3, 1), (5, 1)]), (21, [(3, 1), (7, 1)]),
                (45, [(3, 2), (5, 1)]), (1009 * 1013, [(1009, 1), (1013, 1)])]
        for cname in gen.NAMED:
            dm = gen.named(cname)
            mods.append((dm.p, [(dm.p, 1)]))
            mods.append((dm.n, [(dm.n, 1)]))
        for n, f in mods:
            for e in list(range(0, 140)) + [191, 192, 193, 255, 256, 257, 511, 512, 513, 1023, 1024, 1025]:
                for m in (1, 3, -1, 5 * n + 7):
                    check_jacobi(ctx, m << e, n, f)

        def body(c, v):
            picks, bigbits, bigx, a, sign = v
            factors = {}
            for (i, e) in picks:
                p = smallp[i % len(smallp)]
                factors[p] = factors.get(p, 0) + e
            if bigbits:
                p = prime_in_class((1 << (bigbits - 1)) + bigx % (1 << (bigbits - 1)), 1, 2)
                factors[p] = factors.get(p, 0) + 1
            if not factors:
                return
            n = 1
            for p, e in factors.items():
                n *= p ** e
            if n < 3:
                return
            a = -a if sign else a
            check_jacobi(c, a, n, sorted(factors.items()))
            c.sample({"fn": "jacobi", "a": a, "n": n})
        strat = st.tuples(
            st.lists(st.tuples(st.integers(0, 400), st.integers(1, 3)), max_size=4),
            st.sampled_from([0, 0, 20, 64, 130]), st.integers(0, 1 << 130),
            st.one_of(st.integers(0, 1 << 200), st.integers(0, 50)), st.booleans())
        run_hypothesis(ctx, "jaclarge", strat, body, kw["examples"])
    else:
        raise ValueError(name)


def replay(ctx, case):
    if case.get("kind") == "fault-history":
        from . import faults
        faults.replay(ctx, case)
        return
    if case.get("kind") == "interleaved":
        from .purity import interleaved_pure
        interleaved_pure(ctx, "numbertheory", [NT], _interleaved_jobs(), 1, max_schedules=5000)
        return
    if case["fn"] == "inverse":
        check_inverse(ctx, case["a"], case["m"])
    elif case["fn"] == "sqrt":
        check_sqrt(ctx, case["a"], case["p"])
    else:
        check_jacobi(ctx, case["a"], case["n"], [tuple(f) for f in case["factors"]])
