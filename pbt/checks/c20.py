"""C20 - reader-writer lock: writers exclusive, readers shared, no deadlock."""
import itertools
import threading
import os
import sys

from hypothesis import strategies as st

from .. import sched as S
from ..runner import run_hypothesis

import ecdsa._rwlock as RWMOD

RULE = (
    "The real ecdsa._rwlock code runs in real threads under a harness-owned scheduler: its threading.Lock is "
    "replaced by a scheduler-aware mutex and a context switch is possible before every mutex acquire / release, "
    "while parked on a held mutex, inside the critical section, and at every LINE event of _rwlock.py "
    "(sys.monitoring). Closed systems of R readers and W writers doing k acquire/release rounds are explored by "
    "depth-first enumeration of ALL schedules (replay based, pruned on revisited global states: per-thread code "
    "position + phase, mutex owners, switch counters); larger systems by hypothesis-drawn random schedules. At "
    "every step: at most one writer inside, no reader inside with a writer, no state where every unfinished "
    "thread is parked (deadlock / lost wake-up); every schedule terminates; afterwards a fresh reader round and "
    "a fresh writer round succeed without contention; a second reader enters while the first is still inside "
    "(sharing scenario) and states with >= 2 readers inside are reached. Non-trivial = explored schedule (run to "
    "completion, or cut where it reaches an already explored global state) in which some thread parked on a "
    "held mutex at least once; distinct by schedule (the DFS never repeats a schedule prefix)."
)
ASSUMPTIONS = [
    "closed finite systems only: 'eventually returns' is checked as deadlock freedom + termination, nothing is "
    "claimed about unfair infinite schedules (reader starvation by writers is by design)",
    "context switches inside _rwlock.py happen at line granularity (plus the mutex operations themselves)",
    "CPython >= 3.12 (sys.monitoring)",
]

_RW_FILE = RWMOD.__file__
CODES = S.code_objects(RWMOD.RWLock, RWMOD._LightSwitch)


def _pos():
    f = sys._getframe(1)
    out = []
    while f is not None:
        if f.f_code.co_filename == _RW_FILE:
            out.append((f.f_code.co_name, f.f_lineno, f.f_lasti))
        f = f.f_back
    return tuple(out)


# a failed call before the threads start: writer_release() on a free lock is refused with RuntimeError by the first
# statement of the unchanged code (nothing has been touched by then), so the lock must work as if nothing had happened.
# (an unmatched reader_release() is not refused by the unchanged code either and stays outside the domain)
FAULT = None


class System:
    """one closed system: R readers, W writers, k rounds, optional 'hold' scenario"""

    def __init__(self, R, W, rounds, hold=False, lines=True, programs=None):
        self.R, self.W, self.rounds, self.hold, self.lines = R, W, rounds, hold, lines
        # programs: optional list of strings over {R, W}: one thread per string, one acquire/release round per
        # letter (a thread may act as reader in one round and as writer in the next)
        self.programs = programs

    def build(self):
        self.sched = S.Sched()
        self.sched.pos_fn = _pos
        S.FakeLock.sched = self.sched
        self.saved = RWMOD.threading
        RWMOD.threading = S.FakeThreadingModule
        self.rw = RWMOD.RWLock()
        S.adopt_locks(self.rw)          # mutexes made at import time (module globals, class-body defaults)
        S.adopt_locks(RWMOD)
        if FAULT == "writer-release-on-free-lock":
            try:
                self.rw.writer_release()
            except Exception:
                pass
        self.locks = self._locks(self.rw)
        self.violations = []
        self.max_readers_in = 0
        self.parks = 0
        sc = self.sched

        def reader(t):
            for r in range(self.rounds):
                t.round = r
                t.phase = "acquiring"
                self.rw.reader_acquire()
                t.phase = "in"
                if self.hold and t.idx == 0:
                    # keep the lock until another reader is inside as well
                    t.blocked_on = _Cond(lambda: any(o.phase == "in" and o.role == "R" for o in sc.threads if o is not t)
                                         or all(o.done for o in sc.threads if o is not t and o.role == "R"))
                    sc.yield_here(("hold",))
                    t.blocked_on = None
                else:
                    sc.yield_here(("inside",))
                t.phase = "releasing"
                self.rw.reader_release()
                t.phase = "idle"

        def writer(t):
            for r in range(self.rounds):
                t.round = r
                t.phase = "acquiring"
                self.rw.writer_acquire()
                t.phase = "in"
                sc.yield_here(("inside",))
                t.phase = "releasing"
                self.rw.writer_release()
                t.phase = "idle"

        def mixed(prog):
            def run(t):
                for r, letter in enumerate(prog):
                    t.round = r
                    t.role = letter
                    t.phase = "acquiring"
                    (self.rw.reader_acquire if letter == "R" else self.rw.writer_acquire)()
                    t.phase = "in"
                    sc.yield_here(("inside",))
                    t.phase = "releasing"
                    (self.rw.reader_release if letter == "R" else self.rw.writer_release)()
                    t.phase = "idle"
            return run

        if self.programs:
            for i, prog in enumerate(self.programs):
                t = sc.spawn(mixed(prog), "%s%d" % (prog, i))
                t.role = prog[0]
        else:
            for i in range(self.R):
                t = sc.spawn(reader, "R%d" % i)
                t.role = "R"
            for i in range(self.W):
                t = sc.spawn(writer, "W%d" % i)
                t.role = "W"
        sc.on_step = self._check

    def _locks(self, obj, out=None, seen=None):
        out = [] if out is None else out
        seen = set() if seen is None else seen
        if id(obj) in seen:
            return out
        seen.add(id(obj))
        for k in sorted(vars(obj)):
            v = vars(obj)[k]
            if isinstance(v, S.FakeLock):
                out.append(v)
            elif hasattr(v, "__dict__") and not isinstance(v, type):
                self._locks(v, out, seen)
        return out

    def _ints(self, obj, seen=None, depth=0):
        """abstract value of the lock object's own fields: numbers and flags by value, thread objects and
        thread identifiers by the index of the scheduled thread they belong to, nested objects of the
        lock module recursively, anything else by type name (the mutexes are recorded separately)"""
        seen = set() if seen is None else seen
        if isinstance(obj, (bool, int, str, bytes, float, type(None))):
            if isinstance(obj, int) and not isinstance(obj, bool) and obj > 4096:
                for t in self.sched.threads:
                    if t.ident == obj:
                        return ("thread", t.idx)
            return obj
        if isinstance(obj, S.FakeLock):
            return "lock"
        if isinstance(obj, threading.Thread):
            for t in self.sched.threads:
                if t.ident == obj.ident:
                    return ("thread", t.idx)
            return ("thread", -1)
        if id(obj) in seen or depth > 6:
            return "..."
        seen.add(id(obj))
        if isinstance(obj, (list, tuple)):
            return tuple(self._ints(v, seen, depth + 1) for v in obj)
        if isinstance(obj, (set, frozenset)):
            return tuple(sorted((self._ints(v, seen, depth + 1) for v in obj), key=repr))
        if isinstance(obj, dict):
            return tuple(sorted(((self._ints(k, seen, depth + 1), self._ints(v, seen, depth + 1))
                                 for k, v in obj.items()), key=repr))
        if type(obj).__module__ == RWMOD.__name__ and hasattr(obj, "__dict__"):
            return tuple((k, self._ints(v, seen, depth + 1)) for k, v in sorted(vars(obj).items()))
        return type(obj).__name__

    def state(self):
        lockidx = {id(l): i for i, l in enumerate(self.locks)}
        ts = []
        for t in self.sched.threads:
            b = t.blocked_on
            ts.append((t.done, t.pos, t.info[0] if t.info else None, t.phase, t.round,
                       lockidx.get(id(b), -2 if b is not None else -1)))
        return (tuple(ts), tuple(l.owner for l in self.locks), self._ints(self.rw))

    def _check(self, sc, t):
        win = [x for x in sc.threads if x.role == "W" and x.phase == "in"]
        rin = [x for x in sc.threads if x.role == "R" and x.phase == "in"]
        self.max_readers_in = max(self.max_readers_in, len(rin))
        if len(win) > 1:
            self.violations.append(("two-writers-inside", [x.name for x in win]))
        if win and rin:
            self.violations.append(("writer-and-reader-inside", [x.name for x in win + rin]))
        if t.info and t.info[0] == "parked":
            self.parks += 1

    def finish(self, outcome):
        RWMOD.threading = self.saved
        S.FakeLock.sched = None
        for t in self.sched.threads:
            if t.exc is not None:
                self.violations.append(("exception-in-thread", "%s: %r" % (t.name, t.exc)))
        if outcome == "deadlock":
            self.violations.append(("deadlock", [(t.name, t.phase, t.info) for t in self.sched.threads if not t.done]))
        elif outcome == "steps":
            self.violations.append(("no-termination", "step limit"))
        elif outcome == "done":
            # the lock must be available again, to readers and writers alike
            RWMOD.threading = S.FakeThreadingModule
            try:
                self.rw.reader_acquire()
                self.rw.reader_release()
                self.rw.writer_acquire()
                self.rw.writer_release()
                self.rw.reader_acquire()
                self.rw.reader_release()
            except RuntimeError as e:
                self.violations.append(("not-available-after-release", repr(e)))
            finally:
                RWMOD.threading = self.saved


class _Cond:
    def __init__(self, pred):
        self.pred = pred

    def is_free(self):
        return self.pred()


def execute(sysdef, chooser):
    """run one schedule; chooser(system, runnable, step) -> index or None"""
    sysdef.build()
    with S.Monitor(sysdef.sched, CODES, lines=sysdef.lines):
        outcome = sysdef.sched.run(lambda sc, r, step: chooser(sysdef, r, step), max_steps=20000)
    sysdef.finish(outcome)
    return outcome


HARD_RUN_CAP = 4000000


def dfs(ctx, label, R, W, rounds, hold=False, prefixes=None, lines=True, max_runs=None, programs=None):
    """exhaustive schedule enumeration with visited-state pruning"""
    visited = set()
    stack = [tuple(p) for p in (prefixes or [()])][::-1]
    runs = complete = bad_runs = stuck = 0
    capped = False
    transitions = 0
    max_readers = 0
    case_base = {"kind": "schedule", "R": R, "W": W, "rounds": rounds, "hold": hold, "lines": lines, "fault": FAULT,
                 "programs": programs}
    while stack:
        if max_runs is not None and runs >= max_runs:
            ctx.event("%s:run-budget-reached" % label)
            break
        prefix = stack.pop()
        sysdef = System(R, W, rounds, hold, lines, programs)
        choices = []

        def chooser(sd, runnable, step, prefix=prefix, choices=choices):
            if step < len(prefix):
                k = prefix[step]
                if k >= len(runnable):
                    return None
                choices.append(k)
                return k
            stt = sd.state()
            if stt in visited:
                return None
            visited.add(stt)
            for alt in range(len(runnable) - 1, 0, -1):
                stack.append(tuple(choices) + (alt,))
            choices.append(0)
            return 0

        outcome = execute(sysdef, chooser)
        runs += 1
        if outcome == "stuck":
            # a thread blocked on a primitive the scheduler does not own: not a verdict; give up on this search
            # after a few of them (each costs the watchdog delay)
            stuck += 1
            ctx.event("%s:stuck-schedules" % label)
            if stuck >= 5:
                ctx.event("%s:abandoned-after-5-stuck-schedules" % label)
                capped = True
                break
            continue
        ctx.case_sample(dict(case_base, schedule=list(choices), outcome=outcome,
                             threads=[t.name for t in sysdef.sched.threads]))
        transitions += len(choices)
        ctx.ev()
        max_readers = max(max_readers, sysdef.max_readers_in)
        if outcome == "done":
            complete += 1
        if sysdef.parks:
            ctx.nontrivial_enum()
        for kind, detail in sysdef.violations:
            ctx.fail("%s/%dR%dW" % (kind, R, W), dict(case_base, schedule=list(choices)), repr(detail)[:600])
        if sysdef.violations:
            bad_runs += 1
            if bad_runs >= 25:
                ctx.event("%s:stopped-after-25-violating-schedules" % label)
                break
        if len(stack) > 3000000 or runs >= HARD_RUN_CAP:
            # a state space far beyond anything the lock has on the unchanged tree: inconclusive, not a verdict
            ctx.event("%s:hard-budget-reached" % label)
            capped = True
            break
    ctx.event("%s:runs" % label, runs)
    ctx.event("%s:complete-schedules" % label, complete)
    ctx.event("%s:states" % label, len(visited))
    ctx.event("%s:transitions" % label, transitions)
    if R >= 2 and not stack and max_runs is None and prefixes is None and not capped and not bad_runs:
        if max_readers < 2:
            ctx.fail("readers-never-share/%dR%dW" % (R, W), dict(case_base, schedule=[]),
                     "no explored state had two readers inside")
    ctx.event("%s:max-readers-inside=%d" % (label, max_readers))
    return runs, len(visited), (capped or bad_runs > 0)


def replay_schedule(ctx, case):
    sysdef = System(case["R"], case["W"], case["rounds"], case.get("hold", False), case.get("lines", True),
                    case.get("programs"))
    sched = list(case["schedule"])

    def chooser(sd, runnable, step):
        if step < len(sched):
            return sched[step] if sched[step] < len(runnable) else 0
        return 0
    ctx.ev()
    execute(sysdef, chooser)
    for kind, detail in sysdef.violations:
        ctx.fail("%s/%dR%dW" % (kind, case["R"], case["W"]), case, repr(detail)[:600])
    return sysdef


def random_schedules(ctx, label, R, W, rounds, examples, programs=None):
    case_base = {"kind": "schedule", "R": R, "W": W, "rounds": rounds, "hold": False, "lines": True, "fault": FAULT,
                 "programs": programs}

    def body(c, picks):
        sysdef = System(R, W, rounds, programs=programs)
        made = []

        def chooser(sd, runnable, step):
            k = picks[step % len(picks)] % len(runnable) if picks else 0
            # bias: keep running the same thread for a while, then switch
            made.append(k)
            return k
        if c.counters.get("%s:stuck-schedules" % label, 0) >= 3:
            return          # the code under test blocks on primitives outside the scheduler: nothing to learn here
        c.ev()
        outcome = execute(sysdef, chooser)
        if outcome == "stuck":
            c.event("%s:stuck-schedules" % label)
            return
        for kind, detail in sysdef.violations:
            c.fail("%s/%dR%dW" % (kind, R, W), dict(case_base, schedule=list(made)), repr(detail)[:600])
        if outcome == "done" and sysdef.parks:
            c.nontrivial(("sched", R, W, rounds, tuple(made)))
        c.event("%s:parks>0" % label if sysdef.parks else "%s:parks=0" % label)
        c.event("%s:max-readers-inside=%d" % (label, sysdef.max_readers_in))
        c.sample(dict(case_base, schedule=made[:60], outcome=outcome))
    strat = st.lists(st.one_of(st.integers(0, 4), st.sampled_from([0, 0, 0, 1])), min_size=1, max_size=400)
    run_hypothesis(ctx, label, strat, body, examples, shrink=True)


def units(tier, seed):
    q = tier == "quick"
    out = []
    # two-thread systems, switch points at every line: exhaustive
    for (R, W, k) in ((1, 1, 1), (2, 0, 1), (0, 2, 1), (1, 1, 2), (2, 0, 2), (0, 2, 2)):
        out.append(("dfs", {"R": R, "W": W, "rounds": k}))
    # reader sharing: the first reader stays inside until a second one is inside too (no writer present)
    out.append(("dfs", {"R": 2, "W": 0, "rounds": 1, "hold": True}))
    out.append(("dfs", {"R": 3, "W": 0, "rounds": 1, "hold": True, "lines": not q}))
    # three-thread systems: exhaustive at mutex granularity, and at line granularity sharded by the first
    # two scheduling choices (budgeted in the quick tier, complete in the thorough tier)
    for (R, W) in ((2, 1), (1, 2), (3, 0), (0, 3)):
        out.append(("dfs", {"R": R, "W": W, "rounds": 1, "lines": False}))
        for p in itertools.product(range(R + W), repeat=2):
            out.append(("dfs", {"R": R, "W": W, "rounds": 1, "prefixes": [list(p)], "lines": True,
                                "max_runs": 1500 if q else None}))
    # the same after a refused call (writer_release on the free lock)
    for (R, W, ln) in ((1, 1, True), (0, 2, True), (1, 2, False), (2, 1, False)) + (() if q else ((2, 0, True), (0, 3, False))):
        out.append(("dfs", {"R": R, "W": W, "rounds": 1, "lines": ln, "fault": "writer-release-on-free-lock",
                            "max_runs": (1500 if ln else 2500) if q else None}))
    # four / five threads at mutex granularity
    for (R, W) in ((3, 1), (2, 2)):
        for p in itertools.product(range(R + W), repeat=2):
            out.append(("dfs", {"R": R, "W": W, "rounds": 1, "prefixes": [list(p)], "lines": False,
                                "max_runs": 2500 if q else None}))
    if not q:
        for p in itertools.product(range(5), repeat=2):
            out.append(("dfs", {"R": 3, "W": 2, "rounds": 1, "prefixes": [list(p)], "lines": False, "max_runs": 60000}))
        for (R, W) in ((2, 1), (1, 2)):
            out.append(("dfs", {"R": R, "W": W, "rounds": 2, "lines": False, "max_runs": 200000}))
    for (R, W, k) in ((3, 2, 1), (2, 2, 1), (3, 1, 2), (2, 2, 2)):
        out.append(("random", {"R": R, "W": W, "rounds": k, "examples": 120 if q else 5000}))
    # threads that change role between rounds, three rounds, and larger mixed systems
    for progs in (["RW", "WR"], ["RW", "R"], ["WR", "W"], ["RRR", "W"], ["WWW", "R"], ["RWR", "WRW"]):
        out.append(("dfs", {"R": 0, "W": 0, "rounds": 0, "programs": progs, "lines": len("".join(progs)) <= 4,
                            "max_runs": 3000 if q else None}))
    for progs in (["RW", "WR", "R"], ["RW", "R", "W"], ["R", "R", "W", "W"], ["RW", "WR", "RW"], ["R", "R", "R", "W", "W"],
                  ["RWR", "W", "R", "W"]):
        out.append(("dfs", {"R": 0, "W": 0, "rounds": 0, "programs": progs, "lines": False, "max_runs": 2000 if q else 120000}))
        out.append(("random", {"R": 0, "W": 0, "rounds": 0, "programs": progs, "examples": 50 if q else 3000}))
    return out


def run_unit(ctx, name, **kw):
    global FAULT
    FAULT = kw.get("fault")
    if name == "dfs":
        label = "%dR%dW x%d%s%s%s" % (kw["R"], kw["W"], kw["rounds"], "/hold" if kw.get("hold") else "",
                                      "" if kw.get("lines", True) else "/mutex-points-only", "/after-" + FAULT if FAULT else "")
        if kw.get("programs"):
            label = "+".join(kw["programs"]) + ("" if kw.get("lines", True) else "/mutex-points-only")
        runs, states, cut = dfs(ctx, label, kw["R"], kw["W"], kw["rounds"], kw.get("hold", False), kw.get("prefixes"),
                           kw.get("lines", True), kw.get("max_runs"), kw.get("programs"))
        ctx.sample({"kind": "dfs", "system": label, "prefix": kw.get("prefixes"), "runs": runs, "states": states})
        if kw.get("max_runs") is None and not cut:
            ctx.exhausted("all schedules of %s%s" % (label, " below prefix %s" % kw["prefixes"] if kw.get("prefixes") else ""))
    elif name == "random":
        random_schedules(ctx, "+".join(kw["programs"]) if kw.get("programs") else "%dR%dW x%d" % (kw["R"], kw["W"], kw["rounds"]),
                         kw["R"], kw["W"], kw["rounds"], kw["examples"], kw.get("programs"))
    else:
        raise ValueError(name)


def replay(ctx, case):
    global FAULT
    FAULT = case.get("fault")
    replay_schedule(ctx, case)
