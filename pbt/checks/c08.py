"""C08 - public keys are accepted iff they encode a valid point of the right group."""
import itertools

from hypothesis import strategies as st

from .. import gen
from ..ref import ec as rec
from ..ref import der as rder
from ..ref import points as rpoints
from ..runner import run_hypothesis, exc_sig

from ecdsa import VerifyingKey, MalformedPointError
from ecdsa.curves import UnknownCurveError
from ecdsa.der import UnexpectedDER
from ecdsa.ellipticcurve import PointJacobi, Point

RULE = (
    "Toy curves (cofactor 1, 2, 3, 4 in both group structures, 6) over 1-byte fields: EVERY 2-byte string "
    "(raw), every 3-byte string with prefix in {00..08,ff}, every string of the other lengths 0,1 and samples of "
    "4,5; from_public_point with every (x,y) in [0,255]^2. 2-byte fields: every 3-byte string with prefix 02/03 "
    "(all 65536 x) and strided other prefixes. Named curves: from valid points every encoding, prefix swaps, "
    "x+p / y+p aliases where they fit, x in {p,p+1,2^(8l)-1}, off-curve neighbours, non-residue x, wrong "
    "lengths, raw inside DER, and on secp112r2 reference-built points of order 2, 4, 2n, 4n; SubjectPublicKeyInfo "
    "/ PEM wrappers from an independent encoder with right/wrong algorithm OID, unknown curve OID, unused bits, "
    "trailing bytes. Oracle: independent SEC 1 decoder + validator (range, equation, parity, n*P = O by the "
    "reference): accept iff valid and the key denotes exactly that point; reject with MalformedPointError "
    "(UnexpectedDER / UnknownCurveError for wrappers). Non-trivial = every rejected input and every accepted one "
    "other than the canonical uncompressed encoding; distinct by (curve, entry point, bytes)."
)
ASSUMPTIONS = [
    "on 1-byte fields a 2-byte string is read as raw (the library's documented length dispatch), compressed encodings are enumerated on 2-byte fields",
    "points P whose n*P is the 2-torsion point (y=0) are the recorded known-finding class",
]

TOY1 = ["t251b", "t251a", "tc_251_1_22", "tc_251_6_3", "tc_241_1_15", "tc_251_2_1", "tc_251_1_1"]
TOY2 = ["t1021a", "t65521a", "tc_1021_1_11", "tc_1021_1_10", "tc_1021_1_1"]


def _y0_class(d, data_point):
    """n*P is a point with y == 0 (order exactly two)"""
    if data_point is None:
        return False
    T = rec.mul(d.c, d.n, data_point)
    return T is not None and T[1] == 0


def _claimed_point(d, data):
    """(x,y) the bytes claim to encode, if they have an on-curve reading"""
    l = d.plen
    try:
        if len(data) == 2 * l:
            P = (int.from_bytes(data[:l], "big"), int.from_bytes(data[l:], "big"))
        elif len(data) == 2 * l + 1:
            P = (int.from_bytes(data[1:1 + l], "big"), int.from_bytes(data[1 + l:], "big"))
        elif len(data) == l + 1 and data[0] in (2, 3):
            x = int.from_bytes(data[1:], "big")
            if x >= d.p:
                return None
            pts = [T for T in rec.lift_x(d.c, x) if T[1] & 1 == data[0] & 1]
            return pts[0] if pts else None
        else:
            return None
    except Exception:
        return None
    return P if rec.on_curve(d.c, P) else None


def _carrier(data, carrier):
    """the same octets in another bytes-like object"""
    if carrier == "bytearray":
        return bytearray(data)
    if carrier == "view":
        return memoryview(bytearray(data))
    if carrier == "view2d" and len(data) >= 4 and len(data) % 2 == 0:
        return memoryview(bytearray(data)).cast("B", shape=[len(data) // 2, 2])     # len() is half the octet count
    if carrier == "view2d-rows" and len(data) >= 4 and len(data) % 2 == 0:
        return memoryview(bytearray(data)).cast("B", shape=[2, len(data) // 2])
    return data


def judge_string(ctx, d, data, enum=False, entry="from_string", carrier=None):
    ctx.ev()
    want = rpoints.decode(d.c, d.n, data, allow_raw=True)
    case = {"kind": "string", "curve": d.name, "data": data.hex(), "carrier": carrier}
    ctx.case_sample(case)
    try:
        vk = VerifyingKey.from_string(_carrier(data, carrier), curve=d.lib)
        got = ("ok", (int(vk.pubkey.point.x()), int(vk.pubkey.point.y())))
    except MalformedPointError:
        got = ("bad",)
    except Exception as e:
        ctx.fail("from_string/exception/%s/%s" % (want[0] if want[0] == "ok" else want[1], exc_sig(e)), case, repr(e))
        return
    _compare(ctx, d, "from_string", case, want, got, _claimed_point(d, data), enum,
             trivial=(want[0] == "ok" and len(data) == 2 * d.plen + 1 and data[0] == 4))


def _compare(ctx, d, entry, case, want, got, claimed, enum, trivial=False):
    if want[0] == "ok":
        ctx.event("%s:valid" % entry)
        if got[0] != "ok":
            ctx.fail("%s/valid-rejected" % entry, case, "reference point %r" % (want[1],))
        elif got[1] != want[1]:
            ctx.fail("%s/wrong-point" % entry, case, "library %r reference %r" % (got[1], want[1]))
    else:
        ctx.event("%s:invalid:%s" % (entry, want[1]))
        if got[0] == "ok":
            if want[1] == "subgroup" and _y0_class(d, claimed):
                sig = "accepted-invalid/subgroup/n*P-has-y=0"
            else:
                sig = "%s/accepted-invalid/%s" % (entry, want[1])
            ctx.fail(sig, case, "library accepted %r; reference: %s" % (got[1], want[1]))
    if not trivial:
        if enum:
            ctx.nontrivial_enum()
        else:
            ctx.nontrivial((entry, d.name, repr(sorted(case.items()))))


def judge_point(ctx, d, x, y, kind="jacobi", enum=False):
    """from_public_point with validation on"""
    ctx.ev()
    case = {"kind": "point", "curve": d.name, "x": x, "y": y, "obj": kind}
    P = (x, y)
    if not (0 <= x < d.p and 0 <= y < d.p):
        want = ("bad", "range")
    elif not rec.on_curve(d.c, P):
        want = ("bad", "off-curve")
    elif rec.mul(d.c, d.n, P) is not None:
        want = ("bad", "subgroup")
    else:
        want = ("ok", P)
    try:
        if kind == "jacobi":
            obj = PointJacobi(d.lib.curve, x, y, 1)
        elif kind == "jacobi-ordered":
            obj = PointJacobi(d.lib.curve, x, y, 1, d.n)
        elif kind == "jacobi-z":
            z = 3
            obj = PointJacobi(d.lib.curve, x * z * z % d.p, y * z * z * z % d.p, z)
        elif kind == "legacy-ordered":
            obj = Point(d.lib.curve, x, y, d.n)
        else:
            obj = Point(d.lib.curve, x, y)
        vk = VerifyingKey.from_public_point(obj, curve=d.lib)
        got = ("ok", (int(vk.pubkey.point.x()), int(vk.pubkey.point.y())))
    except MalformedPointError:
        got = ("bad",)
    except Exception as e:
        ctx.fail("from_public_point/exception/%s/%s" % (want[0] if want[0] == "ok" else want[1], exc_sig(e)), case, repr(e))
        return
    _compare(ctx, d, "from_public_point", case, want, got, P if rec.on_curve(d.c, P) and 0 <= x < d.p and 0 <= y < d.p else None, enum)


IDENTITY_OBJECTS = ("singleton", "restored-copy", "n-times-G", "P-minus-P", "jacobi-z0", "table-point-times-n")


def judge_identity(ctx, d, how):
    """the point at infinity handed over as a point object (validation on) is no public key: it has no
    coordinates in [0, p-1]; the refusal must be the documented MalformedPointError"""
    import pickle
    from ecdsa.ellipticcurve import INFINITY
    ctx.ev()
    case = {"kind": "identity", "curve": d.name, "obj": how}
    try:
        if how == "singleton":
            obj = INFINITY
        elif how == "restored-copy":
            obj = pickle.loads(pickle.dumps(INFINITY))
        elif how == "n-times-G":
            obj = PointJacobi(d.lib.curve, d.G[0], d.G[1], 1, d.n) * d.n
        elif how == "table-point-times-n":
            obj = d.lib.generator * d.n
        elif how == "P-minus-P":
            obj = PointJacobi(d.lib.curve, d.G[0], d.G[1], 1) + PointJacobi(d.lib.curve, d.G[0], (-d.G[1]) % d.p, 1)
        else:
            obj = PointJacobi(d.lib.curve, d.G[0], d.G[1], 0)
    except Exception as e:
        ctx.event("identity-object-not-constructible:" + how)
        return
    try:
        vk = VerifyingKey.from_public_point(obj, curve=d.lib)
        ctx.fail("from_public_point/accepted-invalid/identity/%s" % how, case,
                 "the point at infinity was accepted as a public key: %r" % (vk.pubkey.point,))
    except MalformedPointError:
        pass
    except Exception as e:
        ctx.fail("from_public_point/exception/identity/%s" % exc_sig(e), case, repr(e))
    ctx.nontrivial(("identity", d.name, how))


def judge_der(ctx, d, der, via_pem=False, label="PUBLIC KEY", hint=""):
    """from_der / from_pem against strict SPKI parsing + point validation"""
    ctx.ev()
    case = {"kind": "der", "curve": d.name, "der": der.hex(), "pem": via_pem, "hint": hint}
    try:
        alg, coid, pt = rder.dec_spki(der)
        if alg != rder.OID_EC_PUBLIC_KEY:
            want = ("bad", "wrapper:algorithm")
        else:
            names = [nm for nm, o in rder.CURVE_OIDS.items() if o == coid]
            if not names:
                want = ("bad", "wrapper:unknown-curve")
            else:
                dd = gen.dom(names[0])
                w = rpoints.decode(dd.c, dd.n, pt, allow_raw=False)
                want = ("ok", w[1], dd) if w[0] == "ok" else ("bad", "point:" + w[1], dd)
    except rder.DERError as e:
        want = ("bad", "wrapper:der")
    try:
        if via_pem:
            vk = VerifyingKey.from_pem(rder.pem(label, der))
        else:
            vk = VerifyingKey.from_der(der)
        got = ("ok", (int(vk.pubkey.point.x()), int(vk.pubkey.point.y())), vk.curve.name)
    except MalformedPointError:
        got = ("bad", "MalformedPointError")
    except UnexpectedDER:
        got = ("bad", "UnexpectedDER")
    except UnknownCurveError:
        got = ("bad", "UnknownCurveError")
    except Exception as e:
        ctx.fail("from_der/exception/%s/%s" % (want[1] if want[0] == "bad" else "valid", exc_sig(e)), case, repr(e))
        return
    entry = "from_pem" if via_pem else "from_der"
    if want[0] == "ok":
        ctx.event("%s:valid" % entry)
        if got[0] != "ok":
            ctx.fail("%s/valid-rejected" % entry, case, repr(got))
        elif got[1] != want[1] or got[2] != want[2].name:
            ctx.fail("%s/wrong-point-or-curve" % entry, case, "%r vs %r" % (got, want[:2]))
    else:
        ctx.event("%s:invalid:%s" % (entry, want[1]))
        if got[0] == "ok":
            dd = want[2] if len(want) > 2 else d
            pt = rder.dec_spki(der)[2] if len(want) > 2 else b""
            if want[1] == "point:subgroup" and _y0_class(dd, _claimed_point(dd, pt)):
                sig = "accepted-invalid/subgroup/n*P-has-y=0"
            else:
                sig = "%s/accepted-invalid/%s" % (entry, want[1])
            ctx.fail(sig, case, "library accepted %r" % (got[1:],))
        else:
            allowed = {"wrapper:algorithm": ("UnexpectedDER",), "wrapper:der": ("UnexpectedDER",),
                       "wrapper:unknown-curve": ("UnknownCurveError",)}
            ok = allowed.get(want[1], ("MalformedPointError", "UnexpectedDER"))
            if got[1] not in ok:
                ctx.fail("%s/wrong-exception/%s/%s" % (entry, want[1], got[1]), case, "")
    ctx.nontrivial((entry, der, via_pem))


# ---------------------------------------------------------------- sweeps
def toy1_sweep(ctx, cname, part, nparts, prefixes):
    d = gen.dom(cname)
    assert d.plen == 1
    # raw: all 2-byte strings
    for x in range(part, 256, nparts):
        for y in range(256):
            judge_string(ctx, d, bytes((x, y)), enum=True)
            judge_point(ctx, d, x, y, "jacobi", enum=True)
            judge_point(ctx, d, x, y, "jacobi-ordered", enum=True)
    for pf in prefixes:
        for x in range(part, 256, nparts):
            for y in range(256):
                judge_string(ctx, d, bytes((pf, x, y)), enum=True)
    if part == 0:
        for how in IDENTITY_OBJECTS:
            judge_identity(ctx, d, how)
        judge_string(ctx, d, b"", enum=True)
        for b0 in range(256):
            judge_string(ctx, d, bytes((b0,)), enum=True)
        for t in itertools.product((0, 2, 3, 4, 6, 7, 255), (0, 1, 5, 250), (0, 1, 7), (0, 9)):
            judge_string(ctx, d, bytes(t), enum=True)
            judge_string(ctx, d, bytes(t) + b"\x01", enum=True)
        # legacy Point objects (constructor asserts on-curve, so only curve points) and scaled Jacobian
        for P in rec.points(d.c):
            judge_point(ctx, d, P[0], P[1], "legacy")
            judge_point(ctx, d, P[0], P[1], "legacy-ordered")
            judge_point(ctx, d, P[0], P[1], "jacobi-z")
            if P[0] + d.p < 1 << 12:
                judge_point(ctx, d, P[0] + d.p, P[1], "legacy")
                judge_point(ctx, d, P[0], P[1] - d.p, "legacy")
        # the same curve built by a user who omits the cofactor argument: validation must be as strict
        if d.h != 1:
            d2 = gen.toy_cofactor_noh(d.p, d.c[1], d.c[2])
            for P in rec.points(d.c):
                raw = P[0].to_bytes(d.plen, "big") + P[1].to_bytes(d.plen, "big")
                judge_string(ctx, d2, raw)
                judge_string(ctx, d2, b"\x04" + raw)
                judge_point(ctx, d2, P[0], P[1], "jacobi")
                judge_point(ctx, d2, P[0], P[1], "jacobi-ordered")


def toy2_sweep(ctx, cname, part, nparts, full_prefixes, stride_prefixes):
    d = gen.dom(cname)
    assert d.plen == 2
    for pf in full_prefixes:
        for x in range(part, 65536, nparts):
            judge_string(ctx, d, bytes((pf,)) + x.to_bytes(2, "big"), enum=True)
    for pf in stride_prefixes:
        for x in range(part, 65536, nparts * 61):
            judge_string(ctx, d, bytes((pf,)) + x.to_bytes(2, "big"), enum=True)
    if part == 0:
        # raw / uncompressed / hybrid around actual curve points
        pts = rec.points(d.c)
        for P in pts[:: max(1, len(pts) // 300)]:
            for dx, dy in ((0, 0), (0, 1), (1, 0), (d.p, 0), (0, d.p)):
                x, y = P[0] + dx, P[1] + dy
                if x >= 65536 or y >= 65536:
                    continue
                raw = x.to_bytes(2, "big") + y.to_bytes(2, "big")
                judge_string(ctx, d, raw)
                for pf in (4, 6, 7, 5, 2):
                    judge_string(ctx, d, bytes((pf,)) + raw)
                judge_point(ctx, d, x, y, "jacobi")


def named_cases(ctx, cname, per, seed):
    d = gen.dom(cname)
    p, n, l = d.p, d.n, d.plen
    bs = gen.boundary_scalars(n)
    top = 256 ** l
    for i in range(per):
        dd = bs[(5 * i + seed) % len(bs)]
        P = rec.mul(d.c, dd, d.G)
        x, y = P
        xb, yb = x.to_bytes(l, "big"), y.to_bytes(l, "big")
        cpf = bytes((2 + (y & 1),))
        hpf = bytes((6 + (y & 1),))
        inputs = [
            xb + yb, b"\x04" + xb + yb, cpf + xb, hpf + xb + yb,
            bytes((3 - (y & 1),)) + xb,                 # other root: must decode to -P
            bytes((7 - (y & 1),)) + xb + yb,            # hybrid with wrong parity byte
            b"\x05" + xb + yb, b"\x00" + xb + yb, b"\x01" + xb, b"\x04" + xb,
            xb + yb[:-1], xb + yb + b"\x00", b"\x04" + xb + yb + b"\x00", cpf + xb + b"\x00", cpf + xb[:-1],
            xb + ((y + 1) % p).to_bytes(l, "big"), ((x + 1) % p).to_bytes(l, "big") + yb,
            b"\x04" + xb + ((p - y) % p).to_bytes(l, "big"),      # -P: valid
            bytes(2 * l), b"\x04" + bytes(2 * l), b"\x02" + bytes(l), b"\xff" * (2 * l),
        ]
        for xx, yy in ((x + p, y), (x, y + p), (p, y), (x, p), (p + 1, y), (top - 1, y), (x, top - 1)):
            if xx < top and yy < top:
                inputs.append(xx.to_bytes(l, "big") + yy.to_bytes(l, "big"))
                inputs.append(b"\x04" + xx.to_bytes(l, "big") + yy.to_bytes(l, "big"))
                inputs.append(bytes((6 + (yy & 1),)) + xx.to_bytes(l, "big") + yy.to_bytes(l, "big"))
        for xx in (x + p, p, p + 1, top - 1):
            if xx < top:
                inputs.append(b"\x02" + xx.to_bytes(l, "big"))
                inputs.append(b"\x03" + xx.to_bytes(l, "big"))
        # a non-residue x close to x
        xn = x
        for _ in range(200):
            xn = (xn + 1) % p
            if not rec.lift_x(d.c, xn):
                inputs.append(b"\x02" + xn.to_bytes(l, "big"))
                inputs.append(b"\x03" + xn.to_bytes(l, "big"))
                break
        for data in inputs:
            judge_string(ctx, d, data)
        # the same octets in other bytes-like carriers; in particular strings of twice a valid length in a
        # two-dimensional view (whose len() is the valid length)
        zx, zy = bytes(l) + xb, bytes(l) + yb
        doubles = [zx + zy, xb + yb + xb + yb, b"".join(bytes((v, 0)) for v in xb + yb),
                   b"\x04" + xb + yb + b"\x04" + xb + yb, b"".join(bytes((v, 0)) for v in b"\x04" + xb + yb),
                   b"".join(bytes((v, 0)) for v in inputs[2]) if len(inputs) > 2 else zx + zy]
        for data in doubles:
            for carrier in ("view2d", "view2d-rows"):
                judge_string(ctx, d, data, carrier=carrier)
        for i, data in enumerate(inputs):
            judge_string(ctx, d, data, carrier=("bytearray", "view", "view2d", "view2d-rows")[i % 4])
        # point objects
        for how in IDENTITY_OBJECTS:
            judge_identity(ctx, d, how)
        judge_point(ctx, d, x, y, "jacobi")
        judge_point(ctx, d, x, y, "legacy")
        judge_point(ctx, d, x, y, "jacobi-z")
        judge_point(ctx, d, x, (y + 1) % p, "jacobi")
        judge_point(ctx, d, x + p, y, "jacobi")
        judge_point(ctx, d, x, y + p, "jacobi")
        # legacy Point objects accept any representative of the coordinates mod p at construction
        judge_point(ctx, d, x + p, y, "legacy")
        judge_point(ctx, d, x, y + p, "legacy")
        judge_point(ctx, d, x, y - p, "legacy")
        judge_point(ctx, d, x + p, y + p, "legacy")
        # wrappers
        oid = rder.CURVE_OIDS[cname]
        good = rder.enc_spki(oid, b"\x04" + xb + yb)
        judge_der(ctx, d, good, hint="valid")
        judge_der(ctx, d, good, via_pem=True, hint="valid-pem")
        judge_der(ctx, d, rder.enc_spki(oid, cpf + xb), hint="compressed")
        judge_der(ctx, d, rder.enc_spki(oid, hpf + xb + yb), via_pem=bool(i % 2), hint="hybrid")
        judge_der(ctx, d, rder.enc_spki(oid, xb + yb), hint="raw-inside-der")
        judge_der(ctx, d, rder.enc_spki(oid, b"\x04" + xb + ((y + 1) % p).to_bytes(l, "big")), hint="off-curve")
        judge_der(ctx, d, rder.enc_spki(oid, bytes((7 - (y & 1),)) + xb + yb), hint="hybrid-parity")
        judge_der(ctx, d, rder.enc_spki(oid, b"\x04" + xb + yb, alg_oid=(1, 2, 840, 113549, 1, 1, 1)), hint="rsa-oid")
        judge_der(ctx, d, rder.enc_spki(oid, b"\x04" + xb + yb, alg_oid=rder.OID_ECDH), hint="ecdh-oid")
        judge_der(ctx, d, rder.enc_spki((1, 3, 132, 0, 99), b"\x04" + xb + yb), hint="unknown-curve")
        judge_der(ctx, d, rder.enc_spki((1, 2, 840, 10045, 3, 1, 2), b"\x04" + xb + yb), hint="unknown-curve")
        judge_der(ctx, d, good + b"\x00", hint="trailing")
        judge_der(ctx, d, good[:-1], hint="truncated")
        body = rder.enc_seq(rder.enc_oid(rder.OID_EC_PUBLIC_KEY), rder.enc_oid(oid))
        judge_der(ctx, d, rder.enc_seq(body, rder.tlv(0x03, b"\x01\x04" + xb + yb[:-1] + bytes((yb[-1] & 0xFE,)))),
                  hint="unused-bits")
        judge_der(ctx, d, rder.enc_seq(body, rder.enc_bitstring(b"\x04" + xb + yb, 0), b"\x05\x00"), hint="extra-element")
        judge_der(ctx, d, rder.enc_seq(rder.enc_seq(rder.enc_oid(rder.OID_EC_PUBLIC_KEY), rder.enc_oid(oid), b"\x05\x00"),
                                       rder.enc_bitstring(b"\x04" + xb + yb, 0)), hint="extra-in-algid")
        # another curve's OID of the same field size around this point
        for other in gen.NAMED:
            if other != cname and gen.dom(other).plen == l:
                judge_der(ctx, d, rder.enc_spki(rder.CURVE_OIDS[other], b"\x04" + xb + yb), hint="other-curve-oid")
                break
    ctx.sample({"kind": "named", "curve": cname, "note": "valid point with every alias/off-curve/prefix/length/wrapper variant"})


def small_subgroup_112r2(ctx, count):
    d = gen.dom("SECP112r2")
    c, n, p, l = d.c, d.n, d.p, d.plen
    found = {}
    x = 5
    tries = 0
    while len(found) < 3 and tries < 400:
        tries += 1
        x += 1
        pts = rec.lift_x(c, x)
        if not pts:
            continue
        T = rec.mul(c, n, pts[0])          # order divides 4
        if T is None:
            continue
        o = 2 if T[1] == 0 else 4
        found.setdefault(o, T)
        if o == 4:
            found.setdefault(2, rec.dbl(c, T))
    oid = rder.CURVE_OIDS["SECP112r2"]
    for o, T in sorted(found.items()):
        for k in range(count):
            P = T if k == 0 else rec.add(c, T, rec.mul(c, 1000 + 77 * k, d.G))   # order o resp. o*n
            xb, yb = P[0].to_bytes(l, "big"), P[1].to_bytes(l, "big")
            for data in (xb + yb, b"\x04" + xb + yb, bytes((2 + (P[1] & 1),)) + xb,
                         bytes((6 + (P[1] & 1),)) + xb + yb):
                judge_string(ctx, d, data)
            judge_point(ctx, d, P[0], P[1], "jacobi")
            judge_point(ctx, d, P[0], P[1], "jacobi-ordered")
            judge_point(ctx, d, P[0], P[1], "legacy")
            judge_point(ctx, d, P[0], P[1], "legacy-ordered")
            judge_der(ctx, d, rder.enc_spki(oid, b"\x04" + xb + yb), hint="order-%d%s" % (o, "" if k == 0 else "n"))
            ctx.event("secp112r2:order-%d%s" % (o, "" if k == 0 else "*n"))
    ctx.sample({"kind": "secp112r2-small-subgroup", "orders": sorted(found), "note": "points of order 2, 4, 2n, 4n"})


def units(tier, seed):
    q = tier == "quick"
    out = []
    allpf = [0, 1, 2, 3, 4, 5, 6, 7, 8, 255]
    for cname in TOY1:
        nparts = 4 if q else 8
        for part in range(nparts):
            out.append(("toy1", {"curve": cname, "part": part, "nparts": nparts,
                                 "prefixes": [4, 6, 7] + ([2, 5] if q and part == 0 else []) if q else allpf}))
    for cname in TOY2:
        nparts = 4
        for part in range(nparts):
            out.append(("toy2", {"curve": cname, "part": part, "nparts": nparts, "full": [2, 3],
                                 "stride": [0, 1, 4, 5, 6, 7, 255]}))
    names = sorted(gen.NAMED, key=lambda x: -gen.dom(x).p)
    for nm in names:
        out.append(("named", {"names": [nm], "per": 3 if q else 40}))
    out.append(("secp112r2", {"count": 3 if q else 20}))
    out.append(("registry", {}))
    out.append(("faults", {"jobset": 'keys', "arg": 'NIST192p', "examples": 40 if tier == "quick" else 1500, "triples": 400 if tier == "quick" else 20000}))
    out.append(("faults", {"jobset": 'keys', "arg": 'NIST224p', "examples": 40 if tier == "quick" else 1500, "triples": 400 if tier == "quick" else 20000}))
    out.append(("faults", {"jobset": 'keys', "arg": 't23a', "examples": 40 if tier == "quick" else 1500, "triples": 400 if tier == "quick" else 20000}))
    return out


def run_unit(ctx, name, **kw):
    if name == "faults":
        from . import faults
        faults.run_set(ctx, **kw)
        return
    if name == "toy1":
        toy1_sweep(ctx, kw["curve"], kw["part"], kw["nparts"], kw["prefixes"])
        d = gen.dom(kw["curve"])
        ctx.sample({"kind": "toy1", "curve": kw["curve"], "p": d.p, "n": d.n, "h": d.h, "group": d.group,
                    "prefixes": kw["prefixes"], "note": "all (x,y) in [0,255]^2 of this shard"})
        ctx.exhausted("1-byte fields: all 2-byte strings, all 3-byte strings with listed prefixes, all (x,y) point objects")
    elif name == "toy2":
        toy2_sweep(ctx, kw["curve"], kw["part"], kw["nparts"], kw["full"], kw["stride"])
        ctx.sample({"kind": "toy2", "curve": kw["curve"], "note": "all 3-byte strings with prefix 02/03"})
        ctx.exhausted("2-byte fields: all compressed encodings")
    elif name == "named":
        for cname in kw["names"]:
            named_cases(ctx, cname, kw["per"], ctx.seed)
    elif name == "secp112r2":
        small_subgroup_112r2(ctx, kw["count"])
    elif name == "registry":
        # acceptance of the SubjectPublicKeyInfo wrapper follows the public curve registry at call time
        from .c09 import check_registry
        check_registry(ctx)
    else:
        raise ValueError(name)


def replay(ctx, case):
    if case.get("kind") == "fault-history":
        from . import faults
        faults.replay(ctx, case)
        return
    if case.get("kind") == "registry":
        from .c09 import check_registry
        check_registry(ctx)
        return
    d = gen.dom(case["curve"])
    if case["kind"] == "string":
        judge_string(ctx, d, bytes.fromhex(case["data"]), carrier=case.get("carrier"))
    elif case["kind"] == "point":
        judge_point(ctx, d, case["x"], case["y"], case["obj"])
    elif case["kind"] == "identity":
        judge_identity(ctx, d, case["obj"])
    else:
        judge_der(ctx, d, bytes.fromhex(case["der"]), case.get("pem", False), hint=case.get("hint", ""))
