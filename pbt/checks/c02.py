"""C02 - verification accepts exactly the ECDSA-valid pairs and raises
BadSignatureError for everything else."""
import hashlib
import itertools

from hypothesis import strategies as st

from .. import gen
from ..ref import dsa as rdsa
from ..ref import ec as rec
from ..ref import der as rder
from ..runner import run_hypothesis, exc_sig
from . import sigutil as SU

from ecdsa import BadSignatureError, BadDigestError
from ecdsa import util as U

RULE = (
    "Cases are (curve, public key Q, digest, decoder, encoded signature, allow_truncate). Toy curves "
    "(n<p and n>p): every non-identity Q (or a fixed subset), digests covering every e, EVERY (r,s) in "
    "[0,n+1]^2 through each of the three decoders. Named curves: from a reference-made valid (r,s): "
    "(r,n-s), r+-1, s+-1, 0, n, r+n / s+n when they fit, the pair r=-e/d (R = infinity) with several s, "
    "x(R) >= n signatures on secp112r2 and toy curves with n<p, wrong digest, wrong key, same-length other "
    "curve, over-long digest with truncation off. Encodings: every single-edit / length-field mutation of "
    "valid raw, pair and DER signatures, arbitrary byte strings, bytes/bytearray/memoryview. Oracle: strict "
    "reference decoder then FIPS 186-4 verification (pbt/ref/dsa.py): result must be exactly True iff "
    "valid, else BadSignatureError; BadDigestError only for an over-long digest with truncation off. "
    "Non-trivial = everything except an unaltered valid signature; distinct by (curve,Q,digest,decoder,bytes)."
)
ASSUMPTIONS = [
    "with truncation disabled only digests with 8*len <= bitlen(n) (or over-long ones, which must raise) are generated, so e is unambiguous",
    "reference verifier and strict decoders are correct",
]

DECODERS = {"string": U.sigdecode_string, "strings": U.sigdecode_strings, "der": U.sigdecode_der}
_vk_cache = {}


def _vk(d, Q):
    key = (d.name, Q)
    if key not in _vk_cache:
        if len(_vk_cache) > 5000:
            _vk_cache.clear()
        _vk_cache[key] = SU.make_vk(d, Q)
    return _vk_cache[key]


def _wrap(sig, mode):
    if mode == 0 or isinstance(sig, list):
        if isinstance(sig, list) and mode:
            return [bytearray(x) if mode == 1 else memoryview(x) for x in sig]
        return sig
    if mode == 1:
        return bytearray(sig)
    return memoryview(sig) if len(sig) % 2 else memoryview(bytearray(sig)).cast("b")


def check_case(ctx, case, enum=False, cls_hint=None):
    d = gen.dom(case["curve"])
    n = d.n
    Q = tuple(case["Q"])
    digest = bytes.fromhex(case["digest"])
    at = case["at"]
    dec = case["dec"]
    sig = SU.sig_from_json(case["sig"])
    mode = case.get("mode", 0)
    ctx.ev()
    ctx.case_sample(case)
    over = not at and len(digest) > SU.olen(n)
    rs = SU.strict_decode(dec, sig, n)
    if rs is None:
        cls = "malformed"
        want_true = False
    else:
        e = SU.e_of(digest, n, at)
        cls = rdsa.verify_class(d.ref, Q, e, rs[0], rs[1])
        want_true = cls == "valid"
    try:
        vk = _vk(d, Q)
    except Exception as e:
        ctx.fail("vk-construct/%s" % exc_sig(e), case, repr(e))
        return
    try:
        if case.get("precompute"):
            vk = SU.make_vk(d, Q)
            vk.precompute(lazy=case["precompute"] == "lazy")
        if case.get("via_data") is not None:
            # data path: digest must be hash(data); verify() hashes and delegates
            hf = gen.HASHES[case["via_data"][0]]
            res = vk.verify(_wrap(sig, mode), bytes.fromhex(case["via_data"][1]), hashfunc=hf,
                            sigdecode=DECODERS[dec], allow_truncate=at)
        else:
            imp = {} if (at is False and len(digest) % 2) else {"allow_truncate": at}   # default left implicit
            res = vk.verify_digest(_wrap(sig, mode), digest, sigdecode=DECODERS[dec], **imp)
        got = ("ret", res)
    except BadSignatureError:
        got = ("badsig",)
    except BadDigestError:
        got = ("baddigest",)
    except Exception as ex:
        ctx.fail("exception/%s/%s/%s" % (dec, cls, exc_sig(ex)), case, "%r (reference class %s)" % (ex, cls))
        return
    if over:
        ok = got[0] == "baddigest" or (got[0] == "badsig" and not want_true)
        if not ok:
            ctx.fail("overlong-digest/%s" % got[0], case, repr(got))
    elif got[0] == "baddigest":
        ctx.fail("baddigest-unexpected", case, "")
    elif want_true:
        if got != ("ret", True):
            ctx.fail("valid-rejected/%s" % dec, case, "library %r for a valid signature" % (got,))
    else:
        if got[0] == "ret":
            if got[1] is True or got[1]:
                ctx.fail("invalid-accepted/%s/%s" % (dec, cls), case, "reference class %s" % cls)
            else:
                ctx.fail("false-returned/%s/%s" % (dec, cls), case, "returned %r instead of raising" % (got[1],))
    ctx.event("class:" + (cls_hint or cls))
    if cls != "valid" or case.get("altered"):
        if enum:
            ctx.nontrivial_enum()
        else:
            ctx.nontrivial(("c02", case["curve"], Q, case["digest"], dec, repr(case["sig"]), at))


def toy_sweep(ctx, cname, qstep, digests):
    d = gen.dom(cname)
    n = d.n
    Qs = [rec.mul(d.c, i, d.G) for i in range(1, n, qstep)]
    l = SU.olen(n)
    for Q in Qs:
        for dg in digests:
            for r in range(0, n + 2):
                for s in range(0, n + 2):
                    for dec in ("string", "strings", "der"):
                        if dec != "der" and (r >= 256 ** l or s >= 256 ** l):
                            continue
                        check_case(ctx, {"curve": cname, "Q": list(Q), "digest": dg.hex(), "at": True, "dec": dec,
                                         "sig": SU.sig_to_json(SU.encode_ref(dec, r, s, n))}, enum=True)


def constructed(ctx, cname, per, seed):
    d = gen.dom(cname)
    n, c = d.n, d.c
    l = SU.olen(n)
    bs = gen.boundary_scalars(n)
    for i in range(per):
        dd = bs[(5 * i + seed) % len(bs)]
        k = bs[(11 * i + 7 + seed) % len(bs)]
        Q = rec.mul(c, dd, d.G)
        dig = hashlib.sha512(b"c02-%d-%d-%s" % (seed, i, cname.encode())).digest()
        dig = dig[: [l, l, max(1, l - 1), 1, 2 * l][i % 5]] if len(dig) >= 2 * l else (dig * 3)[: [l, 2 * l][i % 2]]
        at = True
        e = SU.e_of(dig, n, at)
        rs = rdsa.sign(d.ref, dd, k, e)
        if rs == "RS-ZERO":
            continue
        r, s = rs
        dec = ("string", "strings", "der")[i % 3]
        base = {"curve": cname, "Q": list(Q), "digest": dig.hex(), "at": at}

        def go(rr, ss, hint, dec=dec, base=base, altered=True):
            if dec != "der" and (rr >= 256 ** l or ss >= 256 ** l or rr < 0 or ss < 0):
                dec = "der"
            if rr < 0 or ss < 0:
                return
            check_case(ctx, dict(base, dec=dec, sig=SU.sig_to_json(SU.encode_ref(dec, rr, ss, n)), altered=altered,
                                 mode=i % 3), cls_hint=hint)
        go(r, s, "valid", altered=False)
        go(r, n - s, "valid-n-minus-s")
        # the same verdicts through verify() on data, and with a precomputed table
        hname = gen.HASH_NAMES[i % len(gen.HASH_NAMES)]
        data = b"c02 data %d" % i
        dg2 = gen.HASHES[hname](data).digest()
        rs3 = rdsa.sign(d.ref, dd, k, SU.e_of(dg2, n, True))
        if rs3 != "RS-ZERO":
            for (rr, ss, hint) in ((rs3[0], rs3[1], "valid-via-data"), (rs3[0], (rs3[1] % (n - 1)) + 1, "altered-via-data")):
                dc = "der" if (rr >= 256 ** l or ss >= 256 ** l) else dec
                check_case(ctx, dict(base, digest=dg2.hex(), via_data=[hname, data.hex()], dec=dc, altered=True,
                                     sig=SU.sig_to_json(SU.encode_ref(dc, rr, ss, n)),
                                     precompute=(None, "lazy", "eager")[i % 3]), cls_hint=hint)
        for dr, ds in ((1, 0), (-1, 0), (0, 1), (0, -1)):
            go(r + dr, s + ds, "off-by-one")
        for rr, ss in ((0, s), (r, 0), (n, s), (r, n), (0, 0), (n, n), (r + n, s), (r, s + n), (n - r, s)):
            go(rr, ss, "range")
        # R at infinity: r = -e/d
        rinf = (-e * pow(dd, -1, n)) % n
        for ss in (1, s, n - 1):
            go(rinf, ss, "R-infinity")
        # wrong digest / wrong key
        d2 = bytes([dig[0] ^ 1]) + dig[1:]
        check_case(ctx, dict(base, digest=d2.hex(), dec=dec, sig=SU.sig_to_json(SU.encode_ref(dec, r, s, n)),
                             altered=True), cls_hint="wrong-digest")
        Q2 = rec.mul(c, (dd % (n - 1)) + 1, d.G)
        check_case(ctx, dict(base, Q=list(Q2), dec=dec, sig=SU.sig_to_json(SU.encode_ref(dec, r, s, n)),
                             altered=True), cls_hint="wrong-key")
        # over-long digest, truncation off
        longd = (dig * 4)[: l + 1 + i % 3]
        check_case(ctx, dict(base, digest=longd.hex(), at=False, dec=dec,
                             sig=SU.sig_to_json(SU.encode_ref(dec, r, s, n)), altered=True), cls_hint="overlong-digest")
        # short digest, truncation off (e unambiguous)
        if n.bit_length() > 8:
            sd = dig[: max(1, (n.bit_length() // 8) - (i % 2))]
            e2 = SU.e_of(sd, n, False)
            rs2 = rdsa.sign(d.ref, dd, k, e2)
            if rs2 != "RS-ZERO":
                check_case(ctx, dict(base, digest=sd.hex(), at=False, dec=dec,
                                     sig=SU.sig_to_json(SU.encode_ref(dec, rs2[0], rs2[1], n))), cls_hint="valid-notruncate")
    ctx.sample({"curve": cname, "note": "constructed: valid, n-s, +-1, range, R=infinity, wrong digest/key, over-long digest"})


def x_ge_n(ctx, cname, count):
    """signatures whose nonce point has x >= n: r = x mod n must verify"""
    d = gen.dom(cname)
    n, c = d.n, d.c
    if n >= d.p:
        return
    found = 0
    k = 1
    dd = n - 2
    Q = rec.mul(c, dd, d.G)
    R = None
    while found < count and k < 40 * count + 50:
        R = rec.add(c, R, d.G)
        if R is not None and R[0] >= n:
            e = (k * 977 + 5) % n
            dig = (e << (8 * SU.olen(n) - n.bit_length())).to_bytes(SU.olen(n), "big")
            e = SU.e_of(dig, n, True)
            rs = rdsa.sign(d.ref, dd, k, e)
            if rs != "RS-ZERO":
                found += 1
                for dec in ("string", "der"):
                    base = {"curve": cname, "Q": list(Q), "digest": dig.hex(), "at": True, "dec": dec}
                    check_case(ctx, dict(base, sig=SU.sig_to_json(SU.encode_ref(dec, rs[0], rs[1], n)), altered=True),
                               cls_hint="x(R)>=n-valid")
                    if R[0] < 256 ** SU.olen(n) or dec == "der":
                        check_case(ctx, dict(base, sig=SU.sig_to_json(SU.encode_ref(dec, R[0], rs[1], n)), altered=True),
                                   cls_hint="x(R)>=n-unreduced-r")
        k += 1
    ctx.event("x>=n-found:%s" % cname, found)


def mutated(ctx, cname, full):
    d = gen.dom(cname)
    n = d.n
    dd, k = n // 3 + 1, n // 5 + 2
    Q = rec.mul(d.c, dd, d.G)
    dig = hashlib.sha256(cname.encode()).digest()[: SU.olen(n)]
    e = SU.e_of(dig, n, True)
    rs = rdsa.sign(d.ref, dd, k, e)
    if rs == "RS-ZERO":
        return
    base = {"curve": cname, "Q": list(Q), "digest": dig.hex(), "at": True, "altered": True}
    seen = set()
    for dec in ("string", "der"):
        seed = SU.encode_ref(dec, rs[0], rs[1], n)
        muts = itertools.chain(gen.mutations(seed, full_subst=full and len(seed) < 60),
                               gen.length_mutations(seed) if dec == "der" else ())
        for kind, m in muts:
            if (dec, m) in seen:
                continue
            seen.add((dec, m))
            check_case(ctx, dict(base, dec=dec, sig=m.hex(), mode=len(seen) % 3), cls_hint="mutated-" + kind)
    l = SU.olen(n)
    rb, sb = rs[0].to_bytes(l, "big"), rs[1].to_bytes(l, "big")
    # fragments that stop right after a tag or a (long-form) length prefix
    for frag in (b"\x30", b"\x30\x81", b"\x30\x82", b"\x30\x82\x01", b"\x30\x84", b"\x30\x02\x02", b"\x30\x02\x02\x81",
                 b"\x30\x03\x02\x82\x00", b"\x30\x05\x02\x01\x01\x02", b"\x30\x05\x02\x01\x01\x02\x81",
                 b"\x30\x06\x02\x01\x01\x02\x82\x00", b"\x30\x80", b"\x30\x00", b"\x02\x01\x01"):
        for mode in (0, 1, 2):
            check_case(ctx, dict(base, dec="der", sig=frag.hex(), mode=mode), cls_hint="der-fragment")
    # canonical DER whose INTEGERs have thousands of decimal digits (far out of range: must be an ordinary rejection)
    for nb in (1786, 1800, 5000, 20000):
        huge = 256 ** nb - 3
        for rr, ss in ((huge, rs[1]), (rs[0], huge), (huge, huge)):
            check_case(ctx, dict(base, dec="der", sig=SU.encode_ref("der", rr, ss, n).hex(), mode=nb % 3), cls_hint="der-huge-integer")
    # the valid raw signature cut at the wrong place: total length right, halves mis-sized
    whole = rb + sb
    for cut in (0, 1, l - 1, l + 1, 2 * l - 1, 2 * l):
        check_case(ctx, dict(base, dec="strings", sig=[whole[:cut].hex(), whole[cut:].hex()]), cls_hint="strings-unbalanced")
    pool = [b"", rb, sb, rb[1:], rb + b"\x00", b"\x00" + sb, sb[:-1]]
    for cnt in range(0, 4):
        for parts in itertools.product(pool, repeat=cnt):
            if cnt == 3 and parts[2] != rb:
                continue
            check_case(ctx, dict(base, dec="strings", sig=[p.hex() for p in parts]), cls_hint="strings-shape")
    ctx.sample(dict(base, dec="der", sig=SU.encode_ref("der", rs[0], rs[1], n).hex(), note="seed of the mutation sweep"))


def long_history(ctx, cname, rounds):
    """the verdict for the n-th verification with one key object equals the verdict for the first: keys built
    from point objects (with and without declared order), many calls, valid and invalid signatures mixed"""
    from ecdsa import VerifyingKey
    from ecdsa.ellipticcurve import Point, PointJacobi
    d = gen.dom(cname)
    n = d.n
    dd = n // 3 + 2
    Q = rec.mul(d.c, dd, d.G)
    cf = d.lib.curve
    keys = {
        "point-no-order": VerifyingKey.from_public_point(Point(cf, Q[0], Q[1]), curve=d.lib),
        "jacobi-no-order": VerifyingKey.from_public_point(PointJacobi(cf, Q[0], Q[1], 1), curve=d.lib),
        "point-ordered": VerifyingKey.from_public_point(Point(cf, Q[0], Q[1], n), curve=d.lib),
        "from-string": SU.make_vk(d, Q),
    }
    # one point object serving two keys on twin curves (same equation, other base point)
    twin = gen.dom(cname + "-twin") if cname in gen.TOY_PRIME else None
    shared = PointJacobi(cf, Q[0], Q[1], 1, n)
    keys["shared-point"] = VerifyingKey.from_public_point(shared, curve=d.lib)
    sigs = []
    for i in range(6):
        dig = hashlib.sha256(b"hist%d" % i).digest()[: SU.olen(n)]
        e = SU.e_of(dig, n, True)
        rs = rdsa.sign(d.ref, dd, 2 + i, e)
        if rs != "RS-ZERO":
            sigs.append((dig, rs, True))
            sigs.append((dig, (rs[0], (rs[1] % (n - 1)) + 1), rdsa.verify(d.ref, Q, e, rs[0], (rs[1] % (n - 1)) + 1)))
    twin_sigs = []
    if twin is not None:
        keys_twin = VerifyingKey.from_public_point(shared, curve=twin.lib)
        # Q as a public key on the twin curve: its private key is dd/2 there (base point 2G)
        d2 = dd * pow(2, -1, n) % n
        for i in range(3):
            dig = hashlib.sha256(b"twin%d" % i).digest()[: SU.olen(n)]
            e = SU.e_of(dig, n, True)
            rs = rdsa.sign(twin.ref, d2, 3 + i, e)
            if rs != "RS-ZERO":
                twin_sigs.append((dig, rs))
    for rnd in range(rounds):
        for kname, vk in keys.items():
            dig, rs, want = sigs[rnd % len(sigs)]
            ctx.ev()
            case = {"kind": "history", "curve": cname, "key": kname, "round": rnd}
            try:
                got = vk.verify_digest(SU.encode_ref("string", rs[0], rs[1], n), dig, allow_truncate=True)
            except BadSignatureError:
                got = False
            except Exception as ex:
                ctx.fail("history/exception/%s/%s" % (kname, exc_sig(ex)), case, "call number %d: %r" % (rnd + 1, ex))
                keys = {k2: v2 for k2, v2 in keys.items() if k2 != kname}
                break
            if got is not want:
                ctx.fail("history/verdict-changed/%s" % kname, case, "call number %d: %r, expected %r" % (rnd + 1, got, want))
        if twin is not None and twin_sigs:
            dig, rs = twin_sigs[rnd % len(twin_sigs)]
            ctx.ev()
            try:
                ok = keys_twin.verify_digest(SU.encode_ref("string", rs[0], rs[1], n), dig, allow_truncate=True)
            except BadSignatureError:
                ok = False
            except Exception as ex:
                ctx.fail("history/exception/twin-key/%s" % exc_sig(ex), {"kind": "history", "curve": cname, "key": "twin", "round": rnd}, repr(ex))
                twin = None
                continue
            if ok is not True:
                ctx.fail("history/twin-curve-key-rejects-valid-signature", {"kind": "history", "curve": cname, "key": "twin", "round": rnd},
                         "the point object is shared with a key of the twin curve that verified before")
    ctx.nontrivial(("history", cname, rounds))
    ctx.sample({"kind": "history", "curve": cname, "rounds": rounds, "keys": sorted(keys)})


def units(tier, seed):
    q = tier == "quick"
    out = []
    out.append(("history", {"curve": "t251a", "rounds": 260 if q else 3000}))
    out.append(("history", {"curve": "NIST192p", "rounds": 130 if q else 1200}))
    dg13 = [bytes([i << 3]) for i in range(32)]      # every e on a 5-bit order
    if q:
        for part in range(4):
            out.append(("toy", {"curve": "t13", "qstep": 1, "digests": [x.hex() for x in dg13[part::16]]}))
        out.append(("toy", {"curve": "t23b", "qstep": 4, "digests": ["00", "a8"]}))
        out.append(("toy", {"curve": "t23a", "qstep": 7, "digests": ["38", "ff01"]}))
        out.append(("toy", {"curve": "t17x", "qstep": 1, "digests": ["00", "50", "f0"]}))
        out.append(("toy", {"curve": "t13-legacy", "qstep": 3, "digests": ["00", "68", "f8"]}))
        out.append(("toy", {"curve": "t17x-legacy", "qstep": 2, "digests": ["10", "a0"]}))
        out.append(("toy", {"curve": "t31x", "qstep": 5, "digests": ["08", "b8"]}))
    else:
        for part in range(16):
            out.append(("toy", {"curve": "t13", "qstep": 1, "digests": [x.hex() for x in dg13[part::16]]}))
        for part in range(8):
            out.append(("toy", {"curve": "t23b", "qstep": 1, "digests": [bytes([(part * 4 + j) << 3]).hex() for j in range(4)]}))
            out.append(("toy", {"curve": "t23a", "qstep": 2, "digests": [bytes([(part * 4 + j) << 3]).hex() for j in range(4)]}))
        out.append(("toy", {"curve": "t61", "qstep": 13, "digests": ["00", "54", "ffff"]}))
    names = gen.NAMED
    for nm in sorted(names, key=lambda x: -gen.dom(x).p):
        out.append(("constructed", {"names": [nm], "per": 6 if q else 80}))
    out.append(("constructed", {"names": ["t23a", "t23b", "t251a", "t257", "t65521b", "t23a-legacy", "t251a-legacy"],
                                "per": 40 if q else 400}))
    out.append(("x-ge-n", {"names": ["SECP112r2", "t23b", "t29", "t61", "t257", "t1021a", "t65537", "t17x", "t31x", "t101x"],
                           "count": 6 if q else 60}))
    out.append(("mutated", {"names": ["t23a", "t251a", "SECP112r1"] if q else
                            ["t23a", "t251a", "t65521b", "SECP112r1", "NIST192p", "NIST256p", "NIST521p"], "full": not q}))
    out.append(("random-bytes", {"examples": 1500 if q else 40000}))
    out.append(("cross-curve", {}))
    out.append(("faults", {"jobset": 'keys', "arg": 'NIST192p', "examples": 40 if tier == "quick" else 1500, "triples": 400 if tier == "quick" else 20000}))
    out.append(("faults", {"jobset": 'keys', "arg": 'SECP160r1', "examples": 40 if tier == "quick" else 1500, "triples": 400 if tier == "quick" else 20000}))
    out.append(("faults", {"jobset": 'keys', "arg": 't23a', "examples": 40 if tier == "quick" else 1500, "triples": 400 if tier == "quick" else 20000}))
    out.append(("faults", {"jobset": 'keys', "arg": 'BRAINPOOLP160r1', "examples": 40 if tier == "quick" else 1500, "triples": 400 if tier == "quick" else 20000}))
    out.append(("inject", {"level": 'keys', "curve": 't23a', "max_points": 200 if tier == "quick" else 4000}))
    return out


def run_unit(ctx, name, **kw):
    if name == "inject":
        from . import inject
        inject.run(ctx, **kw)
        return
    if name == "faults":
        from . import faults
        faults.run_set(ctx, **kw)
        return
    if name == "toy":
        toy_sweep(ctx, kw["curve"], kw["qstep"], [bytes.fromhex(x) for x in kw["digests"]])
        ctx.sample({"curve": kw["curve"], "Q": "every %d-th multiple of G" % kw["qstep"], "digests": kw["digests"],
                    "r,s": "all of [0,n+1]^2", "decoders": "all three"})
        ctx.exhausted("%s: all (r,s) in [0,n+1]^2 x decoders for listed keys/digests" % kw["curve"])
    elif name == "history":
        long_history(ctx, kw["curve"], kw["rounds"])
    elif name == "constructed":
        for cname in kw["names"]:
            constructed(ctx, cname, kw["per"], ctx.seed)
    elif name == "x-ge-n":
        for cname in kw["names"]:
            x_ge_n(ctx, cname, kw["count"])
        ctx.sample({"note": "signatures with x(kG) >= n on curves with n < p", "curves": kw["names"]})
    elif name == "mutated":
        for cname in kw["names"]:
            mutated(ctx, cname, kw["full"])
    elif name == "random-bytes":
        names = ["t23a", "t251a", "SECP112r1", "NIST192p"]

        def body(c, v):
            ci, decn, data, parts, mode = v
            d = gen.dom(names[ci])
            Q = rec.mul(d.c, 2, d.G)
            sig = [p.hex() for p in parts] if decn == "strings" else data.hex()
            case = {"curve": names[ci], "Q": list(Q), "digest": "01", "at": True, "dec": decn, "sig": sig,
                    "mode": mode, "altered": True}
            check_case(c, case, cls_hint="random-bytes")
            c.sample(case)
        strat = st.tuples(st.integers(0, 3), st.sampled_from(["string", "strings", "der"]),
                          st.one_of(st.binary(max_size=60),
                                    st.sampled_from([2, 4, 28, 48]).flatmap(lambda k: st.binary(min_size=k, max_size=k))),
                          st.lists(st.binary(max_size=25), max_size=3), st.integers(0, 2))
        run_hypothesis(ctx, "rnd", strat, body, kw["examples"])
    elif name == "cross-curve":
        # a valid signature for one 256-bit curve offered to keys on the other 256-bit curves
        trio = ["NIST256p", "SECP256k1", "BRAINPOOLP256r1"]
        dig = hashlib.sha256(b"cross").digest()
        for a in trio:
            da = gen.dom(a)
            dd, k = da.n // 7, da.n // 9
            rs = rdsa.sign(da.ref, dd, k, SU.e_of(dig, da.n, True))
            for b in trio:
                db = gen.dom(b)
                Qb = rec.mul(db.c, dd % (db.n - 1) + 1 if b != a else dd, db.G)
                r, s = rs
                for dec in ("string", "der"):
                    check_case(ctx, {"curve": b, "Q": list(Qb), "digest": dig.hex(), "at": True, "dec": dec,
                                     "sig": SU.sig_to_json(SU.encode_ref(dec, r, s, db.n)), "altered": a != b},
                               cls_hint="cross-curve" if a != b else "valid")
        ctx.sample({"note": "signature of one 256-bit curve verified under keys of the others", "curves": trio})
    else:
        raise ValueError(name)


def replay(ctx, case):
    if case.get("kind") == "inject":
        from . import inject
        inject.replay(ctx, case)
        return
    if case.get("kind") == "fault-history":
        from . import faults
        faults.replay(ctx, case)
        return
    if case.get("kind") == "history":
        long_history(ctx, case["curve"], case["round"] + 5)
    else:
        check_case(ctx, case)
