"""An operation cut short at a particular point: an exception (as a MemoryError, RecursionError, KeyboardInterrupt or
a signal handler that raises would be) is injected at the i-th executed line of the library's point / key code
during one operation on fresh objects, for every i (strided on long operations).  The caller catches it and goes on:
every object involved must still denote its value and every later valid operation must give the reference result.

Sound on the unchanged tree because all in-place updates of PointJacobi (coordinates after scale(), the lazily built
multiplication table, the point of a precomputed key) are published by one single assignment at the very end.
Driven through sys.monitoring (PEP 669): a LINE callback that raises propagates into the monitored frame.
"""
import sys

from .faults import Raising

_mon = sys.monitoring
TOOL = 4


class Injector:
    def __init__(self, codes):
        self.codes = list(codes)
        self.count = 0
        self.at = None

    def __enter__(self):
        try:
            _mon.use_tool_id(TOOL, "verif-inject")
        except ValueError:
            _mon.free_tool_id(TOOL)
            _mon.use_tool_id(TOOL, "verif-inject")
        _mon.register_callback(TOOL, _mon.events.LINE, self._line)
        for c in self.codes:
            _mon.set_local_events(TOOL, c, _mon.events.LINE)
        return self

    def __exit__(self, *a):
        for c in self.codes:
            _mon.set_local_events(TOOL, c, 0)
        _mon.register_callback(TOOL, _mon.events.LINE, None)
        _mon.free_tool_id(TOOL)

    def _line(self, code, line):
        if self.at is None:
            return
        self.count += 1
        if self.count == self.at:
            self.at = None            # exactly one fault
            self.where = "%s:%d" % (code.co_name, line)
            raise Raising("injected at %s:%d" % (code.co_name, line))

    def run(self, f, at):
        """-> (number of line events seen, exception or None)"""
        self.count = 0
        self.at = at
        self.where = None
        try:
            f()
            exc = None
        except Exception as e:
            exc = e
        finally:
            self.at = None
        return self.count, exc


def sweep(ctx, label, codes, make, op, after, max_points=300):
    """make() -> state; op(state): the operation to cut short; after(state) -> None or (signature, detail)"""
    with Injector(codes) as inj:
        st0 = make()
        total, exc = inj.run(lambda: op(st0), 10 ** 12)
        if exc is not None:
            # a valid operation on fresh objects fails although nothing was injected: a violation, not a harness error
            ctx.ev()
            ctx.fail("inject/%s/operation-fails-without-fault/%s" % (label, type(exc).__name__),
                     {"kind": "inject", "label": label, "at": None}, repr(exc)[:200])
            return
        if total == 0:
            raise RuntimeError("no line events for %s" % label)
        try:
            bad = after(st0)
        except Exception as e:
            bad = ("exception-" + type(e).__name__, repr(e)[:200])
        if bad:
            ctx.ev()
            ctx.fail("inject/%s/wrong-without-fault/%s" % (label, bad[0]), {"kind": "inject", "label": label, "at": None}, bad[1])
            return
        step = max(1, total // max_points)
        n = 0
        for at in list(range(1, total + 1, step)) + [total]:
            st = make()
            seen, exc = inj.run(lambda: op(st), at)
            ctx.ev()
            n += 1
            if not isinstance(exc, Raising):
                ctx.event("inject:%s:fault-not-delivered-or-converted" % label)
            try:
                bad = after(st)
            except Exception as e:
                bad = ("exception-" + type(e).__name__, repr(e)[:200])
            if bad:
                ctx.fail("inject/%s/%s" % (label, bad[0]), {"kind": "inject", "label": label, "at": at, "where": inj.where}, bad[1])
            else:
                ctx.nontrivial_enum()
    ctx.sample({"kind": "inject", "label": label, "line_events": total, "injection_points": n})
    if step == 1:
        ctx.exhausted("inject %s: a fault at every one of %d executed lines" % (label, total))


# ------------------------------------------------------------------------------------------
def point_jobs(cname):
    """(label, make, op, after) for point-level operations on the given curve"""
    from .. import gen
    from ..ref import ec as rec
    from . import ecutil as EU
    from ecdsa.ellipticcurve import PointJacobi, Point
    d = gen.dom(cname)
    c, G, n, p = d.c, d.G, d.n, d.p
    cf = d.lib.curve
    Qv = rec.mul(c, n // 2 + 1, G)
    Pv = rec.mul(c, 3, G)
    ks = [1, 2, 3, 5, n - 1, n // 2, n + 1, 2 * n + 1, 3 * n - 2, (1 << n.bit_length()) - 1]
    out = []

    def table_state():
        return {"G": PointJacobi(cf, G[0], G[1], 1, n, generator=True), "Q": PointJacobi(cf, Qv[0] * 4 % p, Qv[1] * 8 % p, 2, n)}

    def table_after(st):
        for k in ks:
            why = EU.result_matches(st["G"] * k, rec.mul(c, k, G), p)
            if why:
                return ("table-point-multiplies-wrongly", "k=%d: %s" % (k, why))
        why = EU.result_matches(st["G"].mul_add(3, st["Q"], 5), rec.add(c, rec.mul(c, 3, G), rec.mul(c, 5, Qv)), p)
        if why:
            return ("mul_add-wrong", why)
        why = EU.result_matches(st["G"], G, p) or EU.result_matches(st["Q"], Qv, p)
        if why:
            return ("operand-changed", why)
    out.append(("first-table-mul", table_state, lambda st: st["G"] * (n - 2), table_after))
    out.append(("first-table-mul_add", table_state, lambda st: st["G"].mul_add(n - 2, st["Q"], 3), table_after))
    out.append(("first-table-mul_add-as-other", table_state, lambda st: st["Q"].mul_add(n - 2, st["G"], 3), table_after))

    def plain_state():
        z = 3
        return {"P": PointJacobi(cf, Pv[0] * z * z % p, Pv[1] * z * z * z % p, z, n),
                "Q": PointJacobi(cf, Qv[0] * 4 % p, Qv[1] * 8 % p, 2, n)}

    def plain_after(st):
        why = EU.result_matches(st["P"], Pv, p) or EU.result_matches(st["Q"], Qv, p)
        if why:
            return ("operand-changed", why)
        why = EU.result_matches(st["P"] + st["Q"], rec.add(c, Pv, Qv), p)
        if why:
            return ("sum-wrong", why)
        for k in (2, n - 1, n + 3):
            why = EU.result_matches(st["P"] * k, rec.mul(c, k, Pv), p)
            if why:
                return ("product-wrong", "k=%d: %s" % (k, why))
        aff = st["P"].to_affine()
        if (int(aff.x()), int(aff.y())) != Pv:
            return ("to_affine-wrong", "")
        if not (st["P"] == PointJacobi(cf, Pv[0], Pv[1], 1)) or st["P"] == st["Q"]:
            return ("equality-wrong", "")
    for nm, op in (("scale", lambda st: st["P"].scale()), ("to_affine", lambda st: st["P"].to_affine()),
                   ("add", lambda st: st["P"] + st["Q"]), ("double", lambda st: st["P"].double()),
                   ("mul", lambda st: st["P"] * (n - 2)), ("rmul", lambda st: 5 * st["P"]),
                   ("mul_add", lambda st: st["P"].mul_add(3, st["Q"], n - 1)), ("eq", lambda st: st["P"] == st["Q"]),
                   ("neg", lambda st: -st["P"]), ("coords", lambda st: (st["P"].x(), st["Q"].y()))):
        out.append(("plain-" + nm, plain_state, op, plain_after))
    return out


def key_jobs(cname):
    import hashlib
    from .. import gen
    from ..ref import ec as rec
    from ..ref import dsa as rdsa
    from . import sigutil as SU
    from ecdsa import SigningKey, VerifyingKey, util as U
    d = gen.dom(cname)
    c, G, n = d.c, d.G, d.n
    dd = n // 3 + 2
    Q = rec.mul(c, dd, G)
    msg = b"cut short"
    dig = hashlib.sha256(msg).digest()
    e = SU.e_of(dig, n, True)
    ref_sig = None
    kk = 2
    while rdsa.sign(d.ref, dd, kk, e) == "RS-ZERO":
        kk += 1
    ref_sig = rdsa.sign(d.ref, dd, kk, e)
    sig_bytes = SU.encode_ref("string", ref_sig[0], ref_sig[1], n)
    out = []

    def st_fresh():
        return {"curve": gen.fresh_lib_curve(d)}

    def after_keys(st):
        cv = st["curve"]
        sk = SigningKey.from_secret_exponent(dd, curve=cv, hashfunc=hashlib.sha256)
        vk = sk.get_verifying_key()
        if vk.to_string() != SU.pub_bytes(d, Q):
            return ("public-key-wrong", vk.to_string().hex())
        got = tuple(int(x) for x in sk.sign_digest(dig, k=kk, sigencode=SU.rs_tuple, allow_truncate=True))
        if got != ref_sig:
            return ("signature-wrong", "%r vs %r" % (got, ref_sig))
        s2 = sk.sign_deterministic(msg)
        if vk.verify(s2, msg) is not True:
            return ("own-signature-not-verified", "")
        r2, ss2 = SU.strict_decode("string", s2, n)
        if not rdsa.verify(d.ref, Q, e, r2, ss2):
            return ("own-signature-invalid-by-reference", "")
        for v in (st.get("vk"), VerifyingKey.from_string(SU.pub_bytes(d, Q), curve=cv, hashfunc=hashlib.sha256)):
            if v is not None and v.verify(sig_bytes, msg) is not True:
                return ("valid-signature-not-verified", "")
    out.append(("first-key-from-secret", st_fresh, lambda st: SigningKey.from_secret_exponent(dd, curve=st["curve"]), after_keys))

    def st_vk():
        cv = gen.fresh_lib_curve(d)
        return {"curve": cv, "vk": VerifyingKey.from_string(SU.pub_bytes(d, Q), curve=cv, hashfunc=hashlib.sha256)}
    out.append(("first-verify", st_vk, lambda st: st["vk"].verify(sig_bytes, msg), after_keys))
    out.append(("precompute", st_vk, lambda st: st["vk"].precompute(), after_keys))
    out.append(("precompute-lazy-then-verify", st_vk, lambda st: (st["vk"].precompute(lazy=True), st["vk"].verify(sig_bytes, msg)), after_keys))
    return out


def run(ctx, level, curve, max_points=200, **_):
    import ecdsa.ellipticcurve as EL
    import ecdsa.keys as K
    import ecdsa.ecdsa as E
    from .purity import module_codes
    codes = module_codes(EL) if level == "points" else module_codes(EL, K, E)
    jobs = point_jobs(curve) if level == "points" else key_jobs(curve)
    for label, make, op, after in jobs:
        sweep(ctx, "%s/%s/%s" % (level, curve, label), codes, make, op, after, max_points)


def replay(ctx, case):
    level, curve, label = case["label"].split("/", 2)
    run(ctx, level, curve, max_points=10 ** 9 if case.get("at") else 50)
