"""two threads calling pure helpers of the library with different arguments, under the harness-owned
scheduler with a context switch possible at every line of the given code objects: each must get the
result it gets sequentially (no hidden state shared between calls)"""
import types

from .. import sched as S


def module_codes(*modules):
    codes = []
    for m in modules:
        for nm in dir(m):
            f = getattr(m, nm)
            if isinstance(f, types.FunctionType) and getattr(f, "__module__", "") == m.__name__:
                for c in S.code_objects(f):
                    if c not in codes:
                        codes.append(c)
            elif isinstance(f, type) and getattr(f, "__module__", "") == m.__name__:
                for c in S.code_objects(f):
                    if c not in codes:
                        codes.append(c)
    return codes


def interleaved_pure(ctx, label, modules, jobs, stride=1, second_counts=(None, 3, 9), max_schedules=6000):
    """jobs: {"a": callable, "b": callable} -> comparable results"""
    for m in modules:
        S.adopt_locks(m)
    codes = module_codes(*modules)
    try:
        want = {k: f() for k, f in jobs.items()}
    except Exception as e:
        # the jobs are valid operations: failing when run one after the other is a violation, not a harness error
        from ..runner import exc_sig
        ctx.ev()
        ctx.fail("interleaved/%s/sequential-exception/%s" % (label, exc_sig(e)), {"kind": "interleaved", "label": label, "plan": []},
                 repr(e)[:300])
        return 0, 0, 0
    done = 0
    with S.Monitor(S.Sched(), codes, lines=True) as mon:
        def run(plan):
            sc = S.Sched()
            mon.sched = sc
            S.FakeLock.sched = sc
            res = {}
            for key in ("a", "b"):
                sc.spawn(lambda t, key=key: res.__setitem__(key, jobs[key]()), key)
            seg = {"i": 0}

            def chooser(sc_, runnable, step):
                while True:
                    if seg["i"] >= len(plan):
                        sc_.quiet = True
                        return 0
                    ti, cnt = plan[seg["i"]]
                    seg["i"] += 1
                    t = sc_.threads[ti]
                    if t.done or cnt == 0:
                        continue
                    if t not in runnable:
                        seg["i"] -= 1
                        sc_.quiet = True
                        return 0
                    if cnt is None:
                        sc_.quiet = True
                    else:
                        sc_.quiet = False
                        t.skip = cnt - 1
                    return runnable.index(t)
            sc.step_timeout = 3.0
            try:
                sc.run(chooser)
            finally:
                S.FakeLock.sched = None
            return res, sc
        _, sc0 = run([[0, 10 ** 9]])
        na = sc0.threads[0].switches
        _, sc1 = run([[1, 10 ** 9]])
        nb = sc1.threads[1].switches
        if na == 0 or nb == 0:
            raise RuntimeError("no switch points recorded for %s" % label)
        stuck = 0
        for first, cnt in ((0, na), (1, nb)):
            step = max(stride, (cnt * len(second_counts) * 2) // max_schedules + 1)
            for i in range(0, cnt + 1, step):
                for j in second_counts:
                    plan = [[first, i], [1 - first, j], [first, None], [1 - first, None]]
                    ctx.ev()
                    res, sc = run(plan)
                    done += 1
                    case = {"kind": "interleaved", "label": label, "plan": plan}
                    if sc._stuck_thread is not None:
                        ctx.event("%s:stuck-schedules" % label)
                        stuck += 1
                        if stuck >= 5:
                            ctx.event("%s:abandoned-after-5-stuck-schedules" % label)
                            return na, nb, done
                        continue
                    for t in sc.threads:
                        if t.exc is not None:
                            ctx.fail("interleaved/%s/exception/%s" % (label, type(t.exc).__name__), case, repr(t.exc)[:300])
                    for key in ("a", "b"):
                        if key in res and res[key] != want[key]:
                            ctx.fail("interleaved/%s/wrong-result" % label, case,
                                     "thread %s got %s, sequential %s" % (key, repr(res[key])[:200], repr(want[key])[:200]))
                    ctx.nontrivial_enum()
    ctx.sample({"kind": "interleaved", "label": label, "switch_points": [na, nb], "schedules": done})
    return na, nb, done


def replay_interleaved(ctx, modules, jobs, case):
    """re-run one recorded plan"""
    return interleaved_pure(ctx, case.get("label", "replay"), modules, jobs, stride=10 ** 9)
