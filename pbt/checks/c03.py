"""C03 - (r, s) and public keys are the ones the standard defines."""
import hashlib

from hypothesis import strategies as st

from .. import gen
from ..ref import dsa as rdsa
from ..ref import ec as rec
from ..runner import run_hypothesis, exc_sig
from . import sigutil as SU

from ecdsa import SigningKey, BadDigestError
from ecdsa.ecdsa import RSZeroError

RULE = (
    "Cases are (curve, d, k, digest, allow_truncate). Toy prime-order curves: ALL d, ALL k in [1,n-1], "
    "all 1-byte digests plus a 2/3-byte digest set, both truncation settings. Named curves (all 17): "
    "boundary-biased d, k (1, 2, n-1, n-2, 2^j, 2^j+-1, leading-zero values, runs of ones) and digests of "
    "every length 1..3*baselen (all-zero, all-ones, single bit, leading zero, random), plus the "
    "constructed digest e = -r*d mod n that makes s = 0. Oracle: independent FIPS 186-4 signer "
    "(pbt/ref/dsa.py): decoded (r,s) equal, RSZeroError iff reference says r=0 or s=0, BadDigestError iff "
    "truncation off and len(digest) > orderlen; VerifyingKey.to_string() == x||y of d*G; sign_number with "
    "integers >= n. Non-trivial = truncation shift active (8*len > bitlen n), order not byte aligned, "
    "RS-zero outcome, boundary d or k, leading-zero digest; distinct by (curve,d,k,digest,truncate)."
)
ASSUMPTIONS = [
    "explicit nonce k is in [1, n-1] (the library asserts this)",
    "with truncation disabled and 8*len(digest) > bitlen(n) the statement does not define e; those cases are executed but not compared",
    "reference signer pbt/ref/dsa.py is correct",
]


def check_case(ctx, case, enum=False, sk_cache=None):
    d = gen.dom(case["curve"])
    n = d.n
    dd, k, at = case["d"], case["k"], case["at"]
    digest = bytes.fromhex(case["digest"])
    baselen = SU.olen(n)
    ctx.ev()
    key = (case["curve"], dd)
    ctx.case_sample(case)
    try:
        if sk_cache is not None and key in sk_cache:
            sk = sk_cache[key]
        else:
            sk = SU.make_sk(d, dd)
            if sk_cache is not None:
                sk_cache[key] = sk
    except Exception as e:
        ctx.fail("keygen/exception/%s" % exc_sig(e), case, repr(e))
        return
    over = len(digest) > baselen
    bits = 8 * len(digest)
    defined = at or bits <= n.bit_length()
    try:
        from .c01 import as_type, PAYLOAD_TYPES
        ptype = case.get("ptype") or PAYLOAD_TYPES[(dd + k + len(digest)) % len(PAYLOAD_TYPES)]
        imp = {} if (at is False and (dd + k) % 2) else {"allow_truncate": at}          # default left implicit
        if (dd + 2 * k + len(digest)) % 3 == 0:
            # documented positional order: sign_digest(digest, entropy, sigencode, k, allow_truncate)
            rs = sk.sign_digest(as_type(digest, ptype), None, SU.rs_tuple, k, at)
        else:
            rs = sk.sign_digest(as_type(digest, ptype), k=k, sigencode=SU.rs_tuple, **imp)
        got = ("sig", tuple(int(v) for v in rs))
    except RSZeroError:
        got = ("rszero",)
    except BadDigestError:
        got = ("baddigest",)
    except Exception as e:
        ctx.fail("sign/exception/%s" % exc_sig(e), case, repr(e))
        return
    if not at and over:
        want = ("baddigest",)
    elif not defined:
        want = None
    else:
        e = SU.e_of(digest, n, at) if at else int.from_bytes(digest, "big")
        r = rdsa.sign(d.ref, dd, k, e)
        want = ("rszero",) if r == "RS-ZERO" else ("sig", r)
    shift = bits > n.bit_length()
    cls = "%s%s" % ("shift" if shift else "noshift", "" if n.bit_length() % 8 == 0 else "-unaligned")
    if want is None:
        ctx.event("unspecified-by-statement")
    elif got != want:
        if want[0] == "rszero" or got[0] == "rszero":
            sig = "rszero-mismatch"
        elif want[0] == "baddigest" or got[0] == "baddigest":
            sig = "baddigest-mismatch/%s" % ("truncate" if at else "notruncate")
        else:
            which = "r" if got[1][0] != want[1][0] else "s"
            sig = "wrong-%s/%s/%s" % (which, cls, "truncate" if at else "notruncate")
        ctx.fail(sig, case, "library %r reference %r" % (got, want))
    ctx.event("outcome:%s" % (want[0] if want else "unspecified"))
    ctx.event("class:" + cls)
    bs = case.get("boundary", False)
    nt = shift or n.bit_length() % 8 != 0 or (want and want[0] != "sig") or bs or digest[:1] == b"\x00"
    if nt:
        if enum:
            ctx.nontrivial_enum()
        else:
            ctx.nontrivial(("c03", case["curve"], dd, k, case["digest"], at))


def check_pubkey(ctx, cname, dd, route):
    d = gen.dom(cname)
    ctx.ev()
    case = {"kind": "pubkey", "curve": cname, "d": dd, "route": route}
    Q = rec.mul(d.c, dd, d.G)
    want = SU.pub_bytes(d, Q)
    try:
        if route == "exponent":
            sk = SigningKey.from_secret_exponent(dd, curve=d.lib)
        elif route == "string":
            sk = SigningKey.from_string(dd.to_bytes(SU.olen(d.n), "big"), curve=d.lib)
        else:
            # generate() from an entropy stream that encodes d-1 in the leading bits
            bits = max(1, (d.n - 2).bit_length())
            nb = bits // 8 + 1
            chunk = ((dd - 1) << (8 * nb - bits)).to_bytes(nb, "big")
            sk = SigningKey.generate(curve=d.lib, entropy=lambda m: (chunk + bytes(m))[:m])
            if sk.privkey.secret_multiplier != dd:
                ctx.event("pubkey:generate-drew-other-d")
                dd2 = sk.privkey.secret_multiplier
                want = SU.pub_bytes(d, rec.mul(d.c, dd2, d.G))
        got = sk.get_verifying_key().to_string()
        got2 = sk.verifying_key.to_string("uncompressed")
    except Exception as e:
        ctx.fail("pubkey/exception/%s/%s" % (route, exc_sig(e)), case, repr(e))
        return
    if got != want or got2 != b"\x04" + want:
        ctx.fail("pubkey/not-dG/%s" % route, case, "library %s reference %s" % (got.hex(), want.hex()))
    ctx.nontrivial(("pub", cname, dd, route))


def check_sign_number(ctx, case):
    d = gen.dom(case["curve"])
    ctx.ev()
    try:
        sk = SU.make_sk(d, case["d"])
        try:
            got = tuple(int(v) for v in sk.sign_number(case["number"], k=case["k"]))
        except RSZeroError:
            got = "RS-ZERO"
    except Exception as e:
        ctx.fail("sign_number/exception/%s" % exc_sig(e), case, repr(e))
        return
    want = rdsa.sign(d.ref, case["d"], case["k"], case["number"])
    if got != want:
        ctx.fail("sign_number/wrong", case, "library %r reference %r" % (got, want))
    ctx.nontrivial(("num", case["curve"], case["d"], case["k"], case["number"]))


def toy_sweep(ctx, cname, digests, dstep=1):
    d = gen.dom(cname)
    n = d.n
    cache = {}
    for dd in range(1, n, dstep):
        for k in range(1, n):
            for dg in digests:
                for at in (True, False):
                    check_case(ctx, {"curve": cname, "d": dd, "k": k, "digest": dg.hex(), "at": at,
                                     "boundary": dd in (1, n - 1) or k in (1, n - 1)}, enum=True, sk_cache=cache)


def st_named(names):
    def mk(cname, di, ki, u1, u2, dig, at, force_at):
        dm = gen.dom(cname)
        n = dm.n
        bs = gen.boundary_scalars(n)
        dd = bs[di % len(bs)] if di >= 0 else 1 + u1 % (n - 1)
        k = bs[ki % len(bs)] if ki >= 0 else 1 + u2 % (n - 1)
        return {"curve": cname, "d": dd, "k": k, "digest": dig(SU.olen(n)).hex(), "at": at,
                "boundary": di >= 0 or ki >= 0}

    def digs():
        # a function of baselen so one strategy serves all curves
        def build(rel, kind, rnd):
            def f(bl):
                l = {0: 1, 1: max(1, bl - 1), 2: bl, 3: bl + 1, 4: 2 * bl, 5: 3 * bl}.get(rel, 1 + rnd % (3 * bl))
                if kind == 0:
                    return bytes(l)
                if kind == 1:
                    return b"\xff" * l
                if kind == 2:
                    return (1 << (rnd % (8 * l))).to_bytes(l, "big")
                h = hashlib.shake_128(rnd.to_bytes(8, "big")).digest(l)
                if kind == 3 and l > 1:
                    return b"\x00" + h[1:]
                return h
            return f
        return st.builds(build, st.integers(0, 9), st.integers(0, 6), st.integers(0, 2 ** 64 - 1))

    return st.builds(mk, st.sampled_from(names), st.integers(-10, 50), st.integers(-10, 50),
                     st.integers(0, 1 << 530), st.integers(0, 1 << 530), digs(), st.booleans(), st.booleans())


def flag_history(ctx):
    """one digest, one key, both allow_truncate settings alternately: each call is judged on its own"""
    import hashlib as H
    from ecdsa import SigningKey
    from ecdsa.keys import BadDigestError
    for cname in ("NIST521p", "SECP160r1", "SECP112r2", "NIST256p", "t1021a", "t4093", "t251a"):
        d = gen.dom(cname)
        n = d.n
        bl = SU.olen(n)
        dd, k = n // 3 + 2, n // 5 + 3
        sk = SigningKey.from_secret_exponent(dd, curve=d.lib)
        for ln in (bl - 1, bl, bl + 1):
            if ln < 1:
                continue
            for fill in (0xFF, 0x80, 0x5A):
                digest = bytes([fill]) + H.shake_128(bytes([fill, ln])).digest(ln - 1) if ln > 1 else bytes([fill])
                for at in (False, True, False, True, True, False):
                    ctx.ev()
                    case = {"kind": "flag-history", "curve": cname, "len": ln, "at": at, "digest": digest.hex()}
                    if not at and ln > bl:
                        want = "BadDigestError"
                    else:
                        want = rdsa.sign(d.ref, dd, k, SU.e_of(digest, n, at))
                    try:
                        got = sk.sign_digest(digest, k=k, sigencode=SU.rs_tuple, allow_truncate=at)
                    except BadDigestError:
                        got = "BadDigestError"
                    except RSZeroError:
                        got = "RS-ZERO"
                    except Exception as e:
                        ctx.fail("flag-history/exception/%s" % exc_sig(e), case, repr(e))
                        continue
                    if (tuple(got) if isinstance(got, (tuple, list)) else got) != (tuple(want) if isinstance(want, (tuple, list)) else want):
                        ctx.fail("flag-history/wrong/%s" % ("truncate" if at else "no-truncate"), case,
                                 "got %r, reference %r" % (got, want))
                    ctx.nontrivial(("flag-history", cname, ln, fill, at))
    ctx.sample({"kind": "flag-history", "note": "same digest signed with allow_truncate False, True, False, True, True, False"})


def units(tier, seed):
    q = tier == "quick"
    out = [("flag-history", {})]
    one = [bytes([i]) for i in range(256)]
    multi = [b"\x00\x00", b"\x00\x01", b"\x80\x00", b"\xff\xff", b"\x12\x34", b"\x01\x00\x00", b"\xff\xff\xff"]
    if q:
        for part in range(2):
            out.append(("toy", {"curve": "t13", "digests": [x.hex() for x in one[part::2] + multi]}))
        for part in range(4):
            out.append(("toy", {"curve": "t23a", "digests": [x.hex() for x in one[part::16] + multi]}))
        out.append(("toy", {"curve": "t23b", "digests": [x.hex() for x in one[::16] + multi]}))
        out.append(("toy", {"curve": "t17x", "digests": [x.hex() for x in one[::4] + multi]}))
        out.append(("toy", {"curve": "t17x-legacy", "digests": [x.hex() for x in one[::16] + multi]}))
        out.append(("toy", {"curve": "t13-legacy", "digests": [x.hex() for x in one[::16] + multi]}))
        out.append(("toy", {"curve": "t31x", "digests": [x.hex() for x in one[::32] + multi]}))
        out.append(("toy", {"curve": "t101x", "digests": [x.hex() for x in [b"\x00", b"\x61", b"\xff\x01"]], "dstep": 7}))
        out.append(("toy", {"curve": "t127", "digests": [x.hex() for x in [b"\x00", b"\x7f", b"\xff", b"\x83"] + multi[:3]], "dstep": 5}))
        out.append(("toy", {"curve": "t251a", "digests": [x.hex() for x in [b"\x01", b"\xff\xff", b"\x01\x0e"]], "dstep": 17}))
        out.append(("toy", {"curve": "t257", "digests": [x.hex() for x in [b"\x01", b"\xff\xff", b"\x01\x0e"]], "dstep": 17}))
    else:
        for c in ("t13", "t23a", "t23b", "t29", "t17x", "t31x"):
            for part in range(4):
                out.append(("toy", {"curve": c, "digests": [x.hex() for x in one[part::4] + multi]}))
        for c, step in (("t61", 1), ("t127", 3), ("t251a", 5), ("t257", 5), ("t1021a", 97), ("t65521b", 6007)):
            out.append(("toy", {"curve": c, "digests": [x.hex() for x in one[::32] + multi], "dstep": step}))
    names = gen.NAMED
    for i in range(8):
        out.append(("named", {"names": names[i::8], "examples": 160 if q else 2500}))
    out.append(("szero", {"per": 2 if q else 20}))
    out.append(("pubkeys", {"per": 3 if q else 20}))
    out.append(("sign_number", {"examples": 150 if q else 4000}))
    out.append(("faults", {"jobset": 'keys', "arg": 'NIST224p', "examples": 40 if tier == "quick" else 1500, "triples": 400 if tier == "quick" else 20000}))
    out.append(("faults", {"jobset": 'keys', "arg": 't13', "examples": 40 if tier == "quick" else 1500, "triples": 400 if tier == "quick" else 20000}))
    return out


def run_unit(ctx, name, **kw):
    if name == "faults":
        from . import faults
        faults.run_set(ctx, **kw)
        return
    if name == "flag-history":
        flag_history(ctx)
        return
    if name == "toy":
        toy_sweep(ctx, kw["curve"], [bytes.fromhex(x) for x in kw["digests"]], kw.get("dstep", 1))
        ctx.sample({"curve": kw["curve"], "d": "all" if kw.get("dstep", 1) == 1 else "stride %d" % kw["dstep"],
                    "k": "all", "digests": kw["digests"][:5], "at": "both"})
        ctx.exhausted("%s: all k x listed d x listed digests x both truncation settings" % kw["curve"])
    elif name == "named":
        def body(c, case):
            check_case(c, case)
            c.sample(case)
        run_hypothesis(ctx, "named", st_named(kw["names"]), body, kw["examples"])
    elif name == "szero":
        for cname in gen.NAMED + ["t251a", "t65521a", "t1021b"]:
            d = gen.dom(cname)
            n = d.n
            nl = SU.olen(n)
            for i in range(kw["per"]):
                dd = gen.boundary_scalars(n)[(3 * i + ctx.seed) % len(gen.boundary_scalars(n))]
                k = gen.boundary_scalars(n)[(7 * i + 1 + ctx.seed) % len(gen.boundary_scalars(n))]
                R = rec.mul(d.c, k, d.G)
                r = R[0] % n
                e = (-r * dd) % n
                shift = 8 * nl - n.bit_length()
                if (e << shift) >= 1 << (8 * nl):
                    continue
                dg = (e << shift).to_bytes(nl, "big")
                check_case(ctx, {"curve": cname, "d": dd, "k": k, "digest": dg.hex(), "at": True, "boundary": True})
                # and the neighbour digest, which must sign normally
                dg2 = (((e + 1) % n) << shift).to_bytes(nl, "big")
                check_case(ctx, {"curve": cname, "d": dd, "k": k, "digest": dg2.hex(), "at": True, "boundary": True})
            ctx.sample({"curve": cname, "note": "digest constructed so that s = 0"})
    elif name == "pubkeys":
        for cname in gen.NAMED + list(gen.TOY_PRIME):
            d = gen.dom(cname)
            bs = gen.boundary_scalars(d.n)
            picks = [1, d.n - 1] + [bs[(i * 5 + ctx.seed) % len(bs)] for i in range(kw["per"])]
            for j, dd in enumerate(picks):
                check_pubkey(ctx, cname, dd, ("exponent", "string", "generate")[j % 3])
        ctx.sample({"kind": "pubkey", "curve": "NIST256p", "d": gen.dom("NIST256p").n - 1, "route": "string"})
    elif name == "sign_number":
        names = ["t13", "t23a", "t251a", "SECP112r1", "SECP160r1", "NIST192p", "NIST256p"]

        def body(c, v):
            ci, di, ki, num = v
            cname = names[ci % len(names)]
            n = gen.dom(cname).n
            bs = gen.boundary_scalars(n)
            case = {"kind": "number", "curve": cname, "d": bs[di % len(bs)], "k": bs[ki % len(bs)],
                    "number": num(n)}
            check_sign_number(c, case)
            c.sample(case)
        nums = st.one_of(
            st.sampled_from([lambda n: 0, lambda n: n, lambda n: n + 1, lambda n: n - 1, lambda n: 2 * n,
                             lambda n: 1 << (n.bit_length() + 5)]),
            st.integers(0, 1 << 600).map(lambda u: (lambda n: u % (8 * n))),
            st.integers(0, 1 << 600).map(lambda u: (lambda n: u)),
        )
        run_hypothesis(ctx, "num", st.tuples(st.integers(0, 20), st.integers(0, 60), st.integers(0, 60), nums),
                       body, kw["examples"])
    else:
        raise ValueError(name)


def replay(ctx, case):
    if case.get("kind") == "fault-history":
        from . import faults
        faults.replay(ctx, case)
        return
    k = case.get("kind")
    if k == "flag-history":
        flag_history(ctx)
    elif k == "pubkey":
        check_pubkey(ctx, case["curve"], case["d"], case["route"])
    elif k == "number":
        check_sign_number(ctx, case)
    else:
        check_case(ctx, case)
