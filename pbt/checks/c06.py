"""C06 - point addition, doubling, negation, equality, affine conversion
against the textbook group law."""
import itertools

from hypothesis import strategies as st

from .. import gen
from ..ref import ec as rec
from ..runner import run_hypothesis, exc_sig
from . import ecutil as EU
from .ecutil import CurveFp, PointJacobi, Point, INFINITY

RULE = (
    "Exhaustive part: every prime p up to a bound, every non-singular (a,b), every ordered pair of "
    "points (identity included), each operand in the representations J1 (Z=1), Jz2 (Z=2), Jzm1 "
    "(Z=p-1), Jneg (negation of -P, Z=1, unreduced Y), Jnegz3 (negation, Z=3), Jacc (unnormalised "
    "result of a previous addition, confirmed by the harness to denote P), L (legacy affine Point), "
    "INFINITY; operations P+Q, ==, != in both orders, and per point double(), -P, to_affine(), x(), "
    "y(), scale(); equality of points with identical coordinates on two different curves over the same field "
    "(must be False in every representation, before and after rescaling). Hypothesis part: the 17 named curves with points k*G (boundary k), random Z, "
    "structured pairs (P=Q in different scalings, P=-Q, mixed Z=1/Z!=1, negated, accumulator-shaped). "
    "Oracle: affine chord-and-tangent reference; coordinates must be canonical residues. Non-trivial = "
    "P=Q, P=-Q, an identity operand or result, equal Z != 1, mixed Z=1/Z!=1, a negated operand or a "
    "legacy/Jacobian mix; distinct by (curve,P,Q,representations) - enumerated without repetition."
)
ASSUMPTIONS = [
    "'all primes p' is replaced by all small p plus the 17 production curves (generated-input search "
    "cannot quantify symbolically)",
    "coordinates handed to constructors are canonical residues in [0,p-1]",
    "points with y=0 (2-torsion) are a recorded known finding class (KNOWN_FINDINGS.txt)",
]

REPCLASS = {"INFcopy": "inf", "JZ0": "z0", "JZ0b": "z0", "J1": "z1", "Jz2": "z", "Jzm1": "z", "Jz3": "z", "Jneg": "negz1", "Jnegz3": "negz",
            "Jacc": "acc", "L": "legacy", "INF": "inf"}


def _mk(cf, c, P, rep, helper, twin=False):
    if P is None:
        if rep == "INFcopy":
            import pickle
            return pickle.loads(pickle.dumps(INFINITY))     # equal to, but not identical with, the singleton
        if rep == "JZ0":
            # the identity in Jacobian form: (t^2 : t^3 : 0), here t = 2
            return PointJacobi(cf if not twin else CurveFp(c[0], c[1], c[2]), 4 % c[0], 8 % c[0], 0)
        if rep == "JZ0b":
            # another spelling of the same identity (t = 1)
            return PointJacobi(cf if not twin else CurveFp(c[0], c[1], c[2]), 1, 1, 0)
        return INFINITY
    if twin:
        # the same curve held in a second, equal CurveFp object (unpickled point, user-built curve)
        cf = CurveFp(c[0], c[1], c[2])
    return EU.build(cf, c, P, rep, helper=helper)


def _rel(c, P, Q):
    if P is None or Q is None:
        return "identity-operand"
    if P == Q:
        return "P=Q"
    if P == rec.neg(c, Q):
        return "P=-Q"
    return "generic"


def _y0(*pts):
    return any(T is not None and T[1] == 0 for T in pts)


def check_pair(ctx, c, P, Q, rp, rq, hp=None, hq=None, enum=False):
    p = c[0]
    cf = CurveFp(p, c[1], c[2])
    want = rec.add(c, P, Q)
    rel = _rel(c, P, Q)
    y0 = _y0(P, Q, want)
    case = {"kind": "pair", "c": list(c), "P": P and list(P), "Q": Q and list(Q), "rp": rp, "rq": rq,
            "hp": hp and list(hp), "hq": hq and list(hq)}
    JZ = ("JZ0", "JZ0b")
    rc = REPCLASS[(rp if rp in JZ else "INF") if P is None else rp] + "+" + REPCLASS[(rq if rq in JZ else "INF") if Q is None else rq]
    if P is None and Q is None and rp not in JZ and rq not in JZ:
        if "INFcopy" in (rp, rq):
            return      # two neutral elements: nothing of PointJacobi is involved
    ctx.case_sample(case)

    legacy_only = all(r in ("legacy", "inf") for r in rc.split("+"))

    def sig(op, reason):
        if y0:
            return "%s/y0-class/%s" % (op, "legacy" if legacy_only else "jacobi")
        return "%s/%s/%s/%s" % (op, rel, rc, reason.replace(" ", "-"))

    # --- addition (fresh operands: operations may rescale in place)
    A, B = _mk(cf, c, P, rp, hp), _mk(cf, c, Q, rq, hq, twin=True)
    if A is None or B is None:
        ctx.event("rep-unavailable")
        return
    ctx.ev()
    try:
        R = A + B
        why = EU.result_matches(R, want, p)
        if why is None and want is not None and hasattr(R, "to_affine"):
            aff = R.to_affine()
            if (aff.x(), aff.y()) != want:
                why = "to_affine of sum differs"
    except Exception as e:
        why = "exception " + exc_sig(e)
    if why:
        ctx.fail(sig("add", why), dict(case, op="add"), "%s; reference %r" % (why, want))
    # operands must still denote the same points afterwards
    for obj, val, nm in ((A, P, "left"), (B, Q, "right")):
        if val is not None:
            w2 = EU.result_matches(obj, val, p)
            if w2 and not y0:
                ctx.fail(sig("add-mutated-operand", nm), dict(case, op="add"), w2)

    # --- equality, both spellings
    A, B = _mk(cf, c, P, rp, hp), _mk(cf, c, Q, rq, hq, twin=(rp != rq))
    ctx.ev()
    try:
        eq = A == B
        ne = A != B
        want_eq = P == Q
        if eq is not want_eq or ne is not (not want_eq):
            ctx.fail(sig("eq", "wrong"), dict(case, op="eq"),
                     "== gave %r, != gave %r, points %s" % (eq, ne, "equal" if want_eq else "differ"))
    except Exception as e:
        ctx.fail(sig("eq", "exception " + exc_sig(e)), dict(case, op="eq"), repr(e))

    nontriv = rel != "generic" or want is None or rc not in ("z1+z1",) or y0
    ctx.event("rel:" + rel)
    ctx.event("reps:" + rc)
    if y0:
        ctx.event("y0-class")
    if nontriv:
        if enum:
            ctx.nontrivial_enum()
        else:
            ctx.nontrivial(("pair", c, P, Q, rp, rq))


def check_unary(ctx, c, P, rp, hp=None, enum=False):
    p = c[0]
    cf = CurveFp(p, c[1], c[2])
    y0 = _y0(P, rec.dbl(c, P))
    case = {"kind": "unary", "c": list(c), "P": list(P), "rp": rp, "hp": hp and list(hp)}
    rc = REPCLASS[rp]

    def sig(op, reason):
        if y0:
            return "%s/y0-class/%s" % (op, "legacy" if rp == "L" else "jacobi")
        return "%s/%s/%s" % (op, rc, reason.replace(" ", "-"))

    def fresh():
        return EU.build(cf, c, P, rp, helper=hp)

    if fresh() is None:
        ctx.event("rep-unavailable")
        return
    ops = [
        ("double", lambda o: o.double(), rec.dbl(c, P)),
        ("neg", lambda o: -o, rec.neg(c, P)),
        ("self", lambda o: o, P),
    ]
    if rp != "L":
        ops.append(("to_affine", lambda o: o.to_affine(), P))
        ops.append(("scale", lambda o: o.scale(), P))
    for op, f, want in ops:
        ctx.ev()
        try:
            R = f(fresh())
            why = EU.result_matches(R, want, p)
        except Exception as e:
            why = "exception " + exc_sig(e)
        if why:
            ctx.fail(sig(op, why), dict(case, op=op), "%s; reference %r" % (why, want))
    # reflexivity and comparison with the identity
    ctx.ev()
    try:
        o = fresh()
        if (o == o) is not True or (o != o) is not False:
            ctx.fail(sig("eq-reflexive", "wrong"), dict(case, op="eq-self"), "")
        o2 = fresh()
        if (o2 == INFINITY) is not False or (INFINITY == o2) is not False or (o2 != INFINITY) is not True:
            ctx.fail(sig("eq-infinity", "wrong"), dict(case, op="eq-inf"), "non-identity point equals INFINITY")
    except Exception as e:
        ctx.fail(sig("eq-self", "exception " + exc_sig(e)), dict(case, op="eq-self"), repr(e))
    if enum:
        ctx.nontrivial_enum()
    else:
        ctx.nontrivial(("unary", c, P, rp))


def sweep_curve(ctx, c, reps):
    pts = rec.points(c)
    helpers = {P: EU.pick_helper(c, pts, P) for P in pts}
    allp = [None] + pts
    for P in pts:
        for rp in reps:
            check_unary(ctx, c, P, rp, helpers[P], enum=True)
    for P in allp:
        for Q in allp:
            rps = reps if P is not None else ("INF", "INFcopy", "JZ0", "JZ0b")
            rqs = reps if Q is not None else ("INF", "INFcopy", "JZ0", "JZ0b")
            for rp in rps:
                for rq in rqs:
                    check_pair(ctx, c, P, Q, rp, rq, helpers.get(P), helpers.get(Q), enum=True)


def check_identity_unary(ctx, c):
    """the identity given in Jacobian form (Z = 0): negation, doubling, rescaling and conversion to affine
    form give the identity again, and it equals INFINITY in both spellings"""
    p = c[0]
    case = {"kind": "identity-unary", "c": list(c)}
    for nm, f in (("to_affine", lambda I: I.to_affine()), ("neg", lambda I: -I), ("double", lambda I: I.double()),
                  ("scale", lambda I: I.scale()), ("self", lambda I: I), ("add-self", lambda I: I + I),
                  ("scale-then-neg", lambda I: -(I.scale()))):
        ctx.ev()
        try:
            I = _mk(CurveFp(p, c[1], c[2]), c, None, "JZ0", None)
            R = f(I)
            ok = (R == INFINITY) is True and (R != INFINITY) is False and (INFINITY == R) is True
        except Exception as e:
            ctx.fail("identity-z0/%s/exception/%s" % (nm, exc_sig(e)), dict(case, op=nm), repr(e))
            continue
        if not ok:
            ctx.fail("identity-z0/%s/not-identity" % nm, dict(case, op=nm), repr(R))
        ctx.nontrivial_enum()


def sweep_ordered(ctx, c):
    """operands that carry a declared order which is true of the operand itself (its exact order, or the
    group order): sums with points outside that subgroup, conversion to affine form, equality"""
    pts = rec.points(c)
    p = c[0]
    N = rec.group_order(c)
    for h in (None, 1):
        cf = CurveFp(p, c[1], c[2]) if h is None else CurveFp(p, c[1], c[2], h)
        for P in pts:
            oP = rec.order(c, P)
            for Q in pts:
                want = rec.add(c, P, Q)
                if _y0(P, Q, want, want and rec.dbl(c, want)):
                    continue          # y = 0 class: covered (and recorded as a known finding) by the main sweep
                oQ = rec.order(c, Q)
                for rp, rq, decl, declq in (("J1", "J1", oP, None), ("Jz2", "L", oP, None), ("L", "J1", oP, None),
                                            ("J1", "Jz2", N, None), ("J1", "J1", oP, oQ), ("Jz2", "J1", N, oQ),
                                            ("J1", "L", oP, oQ)):
                    if h == 1 and ((decl != N and N != oP) or (declq not in (None, N) and N != oQ)):
                        continue      # cofactor declared 1 although the group is larger: not a consistent curve object
                    case = {"kind": "ordered", "c": list(c), "P": list(P), "Q": list(Q), "rp": rp, "rq": rq,
                            "order": decl, "order_q": declq, "h": h}
                    ctx.ev()
                    try:
                        A = EU.build(cf, c, P, rp, order=decl)
                        B = EU.build(cf, c, Q, rq, order=declq)
                        if A is None or B is None:
                            continue
                        R = A + B
                        why = EU.result_matches(R, want, p)
                        if why is None and want is not None and hasattr(R, "to_affine"):
                            aff = R.to_affine()
                            if (aff.x(), aff.y()) != want:
                                why = "to_affine of sum differs"
                        if why is None and want is not None and want[1] != 0:
                            D = (R + R) if not hasattr(R, "double") else R.double()
                            why = EU.result_matches(D, rec.dbl(c, want), p)
                            if why is None and (R == EU.build(cf, c, want, "J1")) is not True:
                                why = "sum not equal to the reference point"
                    except Exception as e:
                        why = "exception " + exc_sig(e)
                    if why:
                        ctx.fail("ordered/%s" % why.replace(" ", "-"), case,
                                 "%s; reference %r" % (why, want))
                    if oP != N:
                        ctx.nontrivial_enum()


def cross_curve_eq(ctx, c1, reps):
    """points with identical coordinates on two different curves over the same field never compare
    equal, whatever representation either operand is in (and whatever was done to it before)"""
    p, a, b = c1
    cf1 = CurveFp(p, a, b)
    ctx.ev()
    twin = CurveFp(p, a, b, 1)
    other = CurveFp(p, (a + 1) % p, b)
    try:
        if not (cf1 == twin) or (cf1 != twin) or hash(cf1) != hash(twin) or (cf1 == other) or not (cf1 != other) \
                or {cf1: 1}.get(twin) != 1 or len({cf1, twin, other}) != 2:
            ctx.fail("curve-eq-hash", {"kind": "crosseq", "c": list(c1), "P": None, "rp": "J1", "rq": "J1"},
                     "CurveFp equality / hash inconsistent")
    except Exception as e:
        ctx.fail("curve-eq-hash/exception/%s" % exc_sig(e), {"kind": "crosseq", "c": list(c1), "P": None, "rp": "J1", "rq": "J1"}, repr(e))
    for P in rec.points(c1):
        x, y = P
        a2 = (a + 1) % p
        b2 = (b - x) % p
        c2 = (p, a2, b2)
        if not rec.nonsingular(c2) or not rec.on_curve(c2, P) or P[1] == 0:
            continue
        cf2 = CurveFp(p, a2, b2)
        for r1 in reps:
            for r2 in reps:
                A = EU.build(cf1, c1, P, r1)
                B = EU.build(cf2, c2, P, r2)
                if A is None or B is None:
                    continue
                ctx.ev()
                case = {"kind": "crosseq", "c": list(c1), "P": list(P), "rp": r1, "rq": r2}
                try:
                    res = [(A == B), (B == A), not (A != B), not (B != A)]
                    if r1 != "L":
                        A.scale()
                    if r2 != "L":
                        B.scale()
                    res += [(A == B), (B == A)]
                except Exception as e:
                    ctx.fail("cross-curve-eq/exception/%s" % exc_sig(e), case, repr(e))
                    continue
                if any(res):
                    ctx.fail("cross-curve-eq/equal/%s+%s" % (REPCLASS[r1], REPCLASS[r2]), case,
                             "points on y^2=x^3+%dx+%d and y^2=x^3+%dx+%d mod %d compare equal: %r" % (a, b, a2, b2, p, res))
                ctx.nontrivial_enum()


# ---------------------------------------------------------------- production curves
def check_big(ctx, case):
    d = gen.dom(case["curve"])
    c, p = d.c, d.p
    cf = d.lib.curve
    P = rec.mul(c, case["k1"], d.G)
    mode = case["mode"]
    if mode == "same":
        Q = P
    elif mode == "neg":
        Q = rec.neg(c, P)
    elif mode == "inf":
        Q = None
    else:
        Q = rec.mul(c, case["k2"], d.G)
    if P is None:
        return
    want = rec.add(c, P, Q)

    def mk(T, z, negate, acc):
        if T is None:
            return INFINITY
        x, y = T
        if acc:
            H = rec.mul(c, case["kh"], d.G)
            if H is None or H[0] == T[0]:
                return None
            S = rec.add(c, T, H)
            o = PointJacobi(cf, S[0], S[1], 1, d.n) + PointJacobi(cf, H[0], (-H[1]) % p, 1, d.n)
            return o if EU.denotes(o, c) == T else None
        z %= p
        if z == 0:
            z = 1
        if negate:
            return -PointJacobi(cf, x * z * z % p, (-y) * z * z * z % p, z, d.n)
        if z == 0:
            return Point(cf, x, y, d.n)
        return PointJacobi(cf, x * z * z % p, y * z * z * z % p, z, d.n)

    z1, z2 = case["z1"], case["z2"]
    if case.get("samez"):
        z2 = z1
    A = mk(P, z1, case["n1"], case["a1"]) if not case.get("l1") else Point(cf, P[0], P[1], d.n)
    B = mk(Q, z2, case["n2"], case["a2"]) if not (case.get("l2") and Q is not None) else Point(cf, Q[0], Q[1], d.n)
    if A is None or B is None:
        ctx.event("big:rep-unavailable")
        return
    ctx.ev(3)
    try:
        R = A + B
        why = EU.result_matches(R, want, p)
        if why:
            ctx.fail("big-add/%s/%s" % (mode, why.replace(" ", "-")), case, "reference %r" % (want,))
        if (A == B) is not (P == Q) or (A != B) is not (P != Q):
            ctx.fail("big-eq/%s" % mode, case, "")
        D = A.double()
        why = EU.result_matches(D, rec.dbl(c, P), p)
        if why:
            ctx.fail("big-double/%s" % why.replace(" ", "-"), case, "")
        N = -A
        why = EU.result_matches(N, rec.neg(c, P), p)
        if why:
            ctx.fail("big-neg/%s" % why.replace(" ", "-"), case, "")
        if not isinstance(A, Point):
            aff = A.to_affine()
            if (aff.x(), aff.y()) != P:
                ctx.fail("big-to_affine", case, "")
    except Exception as e:
        ctx.fail("big/exception/%s/%s" % (mode, exc_sig(e)), case, repr(e))
    ctx.event("big:" + mode)
    ctx.nontrivial(("big", tuple(sorted((k, str(v)) for k, v in case.items()))))


def st_big(names):
    def mk(cname, k1i, k2i, mode, z1, z2, samez, n1, n2, a1, a2, l1, l2, kh, u1, u2):
        n = gen.dom(cname).n
        bs = gen.boundary_scalars(n)
        k1 = bs[k1i % len(bs)] if k1i >= 0 else 1 + u1 % (n - 1)
        k2 = bs[k2i % len(bs)] if k2i >= 0 else 1 + u2 % (n - 1)
        return {"kind": "big", "curve": cname, "k1": k1, "k2": k2, "mode": mode, "z1": z1, "z2": z2,
                "samez": samez, "n1": n1, "n2": n2, "a1": a1, "a2": a2, "l1": l1, "l2": l2, "kh": 2 + kh}
    zs = st.one_of(st.sampled_from([1, 1, 2, 3]), st.integers(1, 1 << 521))
    b = st.booleans()
    rare = st.sampled_from([False, False, False, True])
    return st.builds(mk, st.sampled_from(names), st.integers(-30, 60), st.integers(-30, 60),
                     st.sampled_from(["same", "neg", "inf", "other", "other"]), zs, zs, b, b, b, rare, rare,
                     rare, rare, st.integers(0, 1 << 64), st.integers(0, 1 << 521), st.integers(0, 1 << 521))


# ---------------------------------------------------------------- units
def units(tier, seed):
    q = tier == "quick"
    primes = [5, 7, 11, 13] if q else [5, 7, 11, 13, 17, 19, 23, 29, 31]
    out = []
    for p in primes:
        curves = list(EU.all_curves(p))
        if p > 19:
            curves = curves[::7]         # fixed stride beyond p = 19
        chunk = max(1, len(curves) // (2 if p < 11 else (14 if q else 28)))
        for i in range(0, len(curves), chunk):
            out.append(("sweep", {"curves": [list(c) for c in curves[i:i + chunk]],
                                  "reps": list(EU.REPS) if p <= 13 else ["J1", "Jz2", "Jneg", "Jacc", "L"]}))
    names = gen.NAMED
    for i in range(4):
        out.append(("named", {"names": names[i::4], "examples": 500 if q else 8000}))
    for i in range(3):
        out.append(("history", {"curve": ("t13", "t23a", "t13")[i], "examples": 150 if tier == "quick" else 4000, "steps": 40, "label": "h%d" % i}))
    out.append(("inject", {"level": 'points', "curve": 't23a', "max_points": 300 if tier == "quick" else 6000}))
    return out


def run_unit(ctx, name, **kw):
    if name == "inject":
        from . import inject
        inject.run(ctx, **kw)
        return
    if name == "history":
        # histories over live point objects (cached / in-place state, failed operations): the C19 machine
        from . import c19
        c19.run_unit(ctx, "machine", **kw)
        return
    if name == "sweep":
        for c in kw["curves"]:
            sweep_curve(ctx, tuple(c), tuple(kw["reps"]))
            cross_curve_eq(ctx, tuple(c), tuple(kw["reps"]))
            check_identity_unary(ctx, tuple(c))
            if c[0] <= 13:
                sweep_ordered(ctx, tuple(c))
        c0 = kw["curves"][0]
        ctx.sample({"kind": "sweep", "c": c0, "points": len(rec.points(tuple(c0))) + 1,
                    "reps": kw["reps"], "note": "all ordered pairs x all representation pairs"})
        ctx.exhausted("all non-singular curves over listed primes x all point pairs x representations")
    elif name == "named":
        def body(c, case):
            check_big(c, case)
            c.sample(case)
        run_hypothesis(ctx, "big", st_big(kw["names"]), body, kw["examples"])
    else:
        raise ValueError(name)


def replay_ordered(ctx, case):
    c = tuple(case["c"])
    p = c[0]
    cf = CurveFp(p, c[1], c[2]) if case["h"] is None else CurveFp(p, c[1], c[2], case["h"])
    P, Q = tuple(case["P"]), tuple(case["Q"])
    want = rec.add(c, P, Q)
    ctx.ev()
    try:
        R = EU.build(cf, c, P, case["rp"], order=case["order"]) + EU.build(cf, c, Q, case["rq"], order=case.get("order_q"))
        why = EU.result_matches(R, want, p)
        if why is None and want is not None and hasattr(R, "to_affine"):
            aff = R.to_affine()
            if (aff.x(), aff.y()) != want:
                why = "to_affine of sum differs"
    except Exception as e:
        why = "exception " + exc_sig(e)
    if why:
        ctx.fail("ordered/%s" % why.replace(" ", "-"), case, why)


def replay(ctx, case):
    if case.get("kind") == "inject":
        from . import inject
        inject.replay(ctx, case)
        return
    if case.get("kind") == "history":
        from . import c19
        return c19.replay(ctx, case)
    k = case["kind"]
    t = lambda v: None if v is None else tuple(v)
    if k == "ordered":
        return replay_ordered(ctx, case)
    if k == "identity-unary":
        return check_identity_unary(ctx, tuple(case["c"]))
    if k == "pair":
        check_pair(ctx, tuple(case["c"]), t(case["P"]), t(case["Q"]), case["rp"], case["rq"],
                   t(case.get("hp")), t(case.get("hq")))
    elif k == "unary":
        check_unary(ctx, tuple(case["c"]), t(case["P"]), case["rp"], t(case.get("hp")))
    elif k == "big":
        check_big(ctx, case)
    elif k == "crosseq":
        cross_curve_eq(ctx, tuple(case["c"]), (case["rp"], case["rq"]))
