"""C14 - public-key recovery returns the signer's key and only keys that verify."""
import hashlib

from hypothesis import strategies as st

from .. import gen
from ..ref import dsa as rdsa
from ..ref import ec as rec
from ..runner import run_hypothesis, exc_sig
from . import sigutil as SU

from ecdsa import VerifyingKey, BadSignatureError
from ecdsa import util as U

RULE = (
    "Cases are (cofactor-1 curve, d, k, payload, hash, allow_truncate, decoder, entry point). The signature is "
    "made by the reference signer; cases whose nonce point has x >= n are counted and skipped (precondition). "
    "Toy prime-order curves: ALL (d, k) with every e; named cofactor-1 curves (16): boundary d, k, digests of "
    "every length, the constructed digest e = -r*d/2... that sends the second candidate key to infinity (both "
    "e = s*k -/+ ... forms), custom hash functions. Oracle: the returned list has <= 2 keys, contains Q = d*G, "
    "and every returned key verifies the signature over the same digest with the same settings (library verify "
    "and reference verify). Non-trivial = candidate at infinity, digest longer than the order, order not byte "
    "aligned, boundary d/k, DER decoder, custom hash; distinct by the full tuple."
)
ASSUMPTIONS = [
    "curve has cofactor 1 and x(kG) < n (stated precondition), decided by the reference",
    "reference signer/verifier are correct",
]

DEC = {"string": U.sigdecode_string, "der": U.sigdecode_der, "strings": U.sigdecode_strings}


def check_case(ctx, case, enum=False):
    d = gen.dom(case["curve"])
    n = d.n
    dd, k = case["d"], case["k"]
    at = case["at"]
    hf = gen.HASHES[case["hash"]]
    payload = bytes.fromhex(case["payload"])
    entry = case["entry"]
    decn = case["dec"]
    R = rec.mul(d.c, k, d.G)
    if R is None or R[0] >= n:
        ctx.event("skipped:x(kG)>=n")
        return
    if entry == "data":
        digest = hf(payload).digest()
        at_eff = at
    else:
        digest = payload
        at_eff = at
    if not at_eff and len(digest) > SU.olen(n):
        ctx.event("skipped:overlong-digest-notruncate")
        return
    if not at_eff and 8 * len(digest) > n.bit_length():
        # the statement of C03 leaves e open here; recovery only has to agree with sign / verify, which take
        # the whole digest as the integer when truncation is off
        ctx.event("e-taken-whole(no-truncation)")
    e = SU.e_of(digest, n, at_eff)
    rs = rdsa.sign(d.ref, dd, k, e)
    if rs == "RS-ZERO":
        ctx.event("skipped:rs-zero")
        return
    r, s = rs
    Q = rec.mul(d.c, dd, d.G)
    sig = SU.encode_ref(decn, r, s, n)
    ctx.ev()
    ctx.case_sample(dict(case, r=r, s=s))
    try:
        # when the wanted setting equals the documented default the argument is left out half of the time
        implicit = case.get("implicit", (dd + k) % 2 == 0)
        if entry == "data":
            kwargs = {} if (implicit and at is True) else {"allow_truncate": at}
            keys = VerifyingKey.from_public_key_recovery(sig, payload, d.lib, hashfunc=hf, sigdecode=DEC[decn], **kwargs)
        else:
            kwargs = {} if (implicit and at is False) else {"allow_truncate": at}
            keys = VerifyingKey.from_public_key_recovery_with_digest(sig, digest, d.lib, hashfunc=hf,
                                                                     sigdecode=DEC[decn], **kwargs)
    except Exception as ex:
        # which candidate is degenerate?
        inf = _candidate_at_infinity(d, r, s, e)
        ctx.fail("recovery/exception/%s/%s" % ("candidate-at-infinity" if inf else "regular", exc_sig(ex)), case, repr(ex))
        return
    problems = []
    if not isinstance(keys, (list, tuple)) or len(keys) > 2:
        problems.append("too-many")
    pts = []
    for vk in keys:
        try:
            P = (int(vk.pubkey.point.x()), int(vk.pubkey.point.y()))
        except Exception:
            problems.append("key-without-coordinates")
            continue
        pts.append(P)
        try:
            raw = vk.to_string()
            if raw != P[0].to_bytes(d.plen, "big") + P[1].to_bytes(d.plen, "big") \
                    or VerifyingKey.from_string(vk.to_string("compressed") if d.plen > 1 else raw, curve=d.lib).to_string() != raw \
                    or vk.curve is not d.lib:
                problems.append("returned-key-serialises-wrongly")
        except Exception as ex:
            problems.append("returned-key-serialise-exception-" + type(ex).__name__)
        if not rdsa.verify(d.ref, P, e, r, s):
            problems.append("returned-key-does-not-verify(reference)")
        try:
            if entry == "data":
                ok = vk.verify(sig, payload, hashfunc=hf, sigdecode=DEC[decn], allow_truncate=at)
            else:
                ok = vk.verify_digest(sig, digest, sigdecode=DEC[decn], allow_truncate=at)
            if ok is not True:
                problems.append("returned-key-verify-not-True")
            if case.get("precompute"):
                vk.precompute(lazy=case["precompute"] == "lazy")
                again = vk.verify_digest(sig, digest, sigdecode=DEC[decn], allow_truncate=at_eff)
                if again is not True:
                    problems.append("returned-key-fails-after-precompute")
        except BadSignatureError:
            problems.append("returned-key-does-not-verify(library)")
        except Exception as ex:
            problems.append("returned-key-verify-exception-" + type(ex).__name__)
    if Q not in pts:
        problems.append("signer-key-missing")
    for pr in sorted(set(problems)):
        ctx.fail("recovery/%s" % pr, case, "returned %r, signer %r" % (pts, Q))
    cls = []
    if _candidate_at_infinity(d, r, s, e):
        cls.append("candidate-at-infinity")
    if 8 * len(digest) > n.bit_length():
        cls.append("long-digest")
    if n.bit_length() % 8:
        cls.append("unaligned")
    if decn == "der":
        cls.append("der")
    if case["hash"] not in ("sha1", "sha256"):
        cls.append("custom-hash")
    if case.get("boundary"):
        cls.append("boundary")
    for c in cls:
        ctx.event("c:" + c)
    if cls:
        if enum:
            ctx.nontrivial_enum()
        else:
            ctx.nontrivial(("c14", tuple(sorted((a, repr(b)) for a, b in case.items()))))


def _candidate_at_infinity(d, r, s, e):
    """is one of r^-1 (s R - e G), R = (r, +-y), the identity?"""
    pts = rec.lift_x(d.c, r)
    for Rp in pts:
        T = rec.add(d.c, rec.mul(d.c, s, Rp), rec.mul(d.c, (-e) % d.n, d.G))
        if T is None:
            return True
    return False


def toy_sweep(ctx, cname, digests):
    d = gen.dom(cname)
    n = d.n
    i = 0
    for dd in range(1, n):
        for k in range(1, n):
            for dg in digests:
                i += 1
                check_case(ctx, {"curve": cname, "d": dd, "k": k, "payload": dg.hex(), "hash": "sha1",
                                 "at": True, "dec": ("string", "der", "strings")[i % 3], "entry": "digest",
                                 "precompute": (None, None, "lazy", "eager")[i % 4],
                                 "boundary": dd in (1, n - 1) or k in (1, n - 1)}, enum=True)


def infinity_cases(ctx, cname, per, seed):
    """digest chosen so that the candidate built from -R is the identity:
    s*(-R) = e*G  <=>  e = -s*k  with  s = (e + r d)/k  =>  e = -r*d/2"""
    d = gen.dom(cname)
    n = d.n
    nl = SU.olen(n)
    bs = gen.boundary_scalars(n)
    inv2 = pow(2, -1, n)
    for i in range(per):
        dd = bs[(3 * i + seed) % len(bs)]
        k = bs[(7 * i + 2 + seed) % len(bs)]
        R = rec.mul(d.c, k, d.G)
        if R[0] >= n:
            continue
        r = R[0] % n
        e = (-r * dd * inv2) % n
        shift = 8 * nl - n.bit_length()
        if (e << shift) >= 1 << (8 * nl):
            continue
        dg = (e << shift).to_bytes(nl, "big")
        for decn in ("string", "der"):
            check_case(ctx, {"curve": cname, "d": dd, "k": k, "payload": dg.hex(), "hash": "sha256", "at": True,
                             "dec": decn, "entry": "digest", "boundary": True})
    ctx.sample({"curve": cname, "note": "digest e = -r*d/2 mod n: second candidate key is the point at infinity"})


def SU_olen(n):
    return (n.bit_length() + 7) // 8


def st_named(names):
    def mk(cname, di, ki, u1, u2, hname, entry, payload, at, decn, pre=None):
        n = gen.dom(cname).n
        bs = gen.boundary_scalars(n)
        dd = bs[di % len(bs)] if di >= 0 else 1 + u1 % (n - 1)
        k = bs[ki % len(bs)] if ki >= 0 else 1 + u2 % (n - 1)
        if u2 % 5 == 0:
            hname = gen.exact_hash_name(n)        # hash output exactly as long as the order (in octets)
        if entry == "digest" and not payload:
            payload = b"\x05"
        if entry == "digest" and u1 % 7 == 0:
            payload = (payload * (1 + SU_olen(n)))[: SU_olen(n)]      # digest exactly as long as the order
        if entry == "digest" and not at and 8 * len(payload) > n.bit_length():
            payload = payload[: max(1, n.bit_length() // 8)]
        if entry == "data" and not at and 8 * gen.HASHES[hname]().digest_size > n.bit_length():
            at = True
        return {"curve": cname, "d": dd, "k": k, "payload": payload.hex(), "hash": hname, "at": at, "dec": decn,
                "entry": entry, "boundary": di >= 0 or ki >= 0, "precompute": pre}
    return st.builds(mk, st.sampled_from(names), st.integers(-10, 50), st.integers(-10, 50),
                     st.integers(0, 1 << 530), st.integers(0, 1 << 530), st.sampled_from(gen.HASH_NAMES),
                     st.sampled_from(["data", "digest"]),
                     st.one_of(st.binary(max_size=70), st.binary(min_size=90, max_size=140)), st.booleans(),
                     st.sampled_from(["string", "der", "strings"]), st.sampled_from([None, None, "lazy", "eager"]))


COF1 = [c for c in gen.NAMED if c != "SECP112r2"]


def units(tier, seed):
    q = tier == "quick"
    out = []
    one = [bytes([i]) for i in range(256)]
    if q:
        out.append(("toy", {"curve": "t13", "digests": [x.hex() for x in one[::8]]}))
        out.append(("toy", {"curve": "t23a", "digests": [x.hex() for x in one[::32] + [b"\xff\xff"]]}))
        out.append(("toy", {"curve": "t23b", "digests": [x.hex() for x in one[3::64]]}))
        out.append(("toy", {"curve": "t29", "digests": [x.hex() for x in one[3::64]]}))
        out.append(("toy", {"curve": "t17x", "digests": [x.hex() for x in one[::16]]}))
    else:
        for c in ("t13", "t23a", "t23b", "t29"):
            for part in range(4):
                out.append(("toy", {"curve": c, "digests": [x.hex() for x in one[part::8]]}))
        out.append(("toy", {"curve": "t61", "digests": [x.hex() for x in one[::32]]}))
        out.append(("toy", {"curve": "t127", "digests": [x.hex() for x in one[::128]]}))
    names = sorted(COF1, key=lambda x: -gen.dom(x).p)
    for i in range(8):
        out.append(("named", {"names": names[i::8], "examples": 40 if q else 1200}))
    for i in range(4):
        out.append(("infinity", {"names": names[i::4] + ["t251a", "t1021b", "t65521a"][i:i + 1], "per": 2 if q else 24}))
    out.append(("toy-hyp", {"names": list(gen.TOY_PRIME), "examples": 1500 if q else 30000}))
    out.append(("faults", {"jobset": 'keys', "arg": 'NIST192p', "examples": 40 if tier == "quick" else 1500, "triples": 400 if tier == "quick" else 20000}))
    out.append(("faults", {"jobset": 'keys', "arg": 'SECP160r1', "examples": 40 if tier == "quick" else 1500, "triples": 400 if tier == "quick" else 20000}))
    return out


def run_unit(ctx, name, **kw):
    if name == "faults":
        from . import faults
        faults.run_set(ctx, **kw)
        return
    if name == "toy":
        toy_sweep(ctx, kw["curve"], [bytes.fromhex(x) for x in kw["digests"]])
        ctx.sample({"curve": kw["curve"], "d": "all", "k": "all", "digests": kw["digests"][:6]})
        ctx.exhausted("%s: all (d,k) x listed digests" % kw["curve"])
    elif name in ("named", "toy-hyp"):
        def body(c, case):
            check_case(c, case)
            c.sample(case)
        run_hypothesis(ctx, "cases", st_named(kw["names"]), body, kw["examples"])
    elif name == "infinity":
        for cname in kw["names"]:
            infinity_cases(ctx, cname, kw["per"], ctx.seed)
    else:
        raise ValueError(name)


def replay(ctx, case):
    if case.get("kind") == "fault-history":
        from . import faults
        faults.replay(ctx, case)
        return
    check_case(ctx, case)
