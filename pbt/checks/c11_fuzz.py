"""Coverage-guided fuzzing (atheris) of the DER readers with the C11
differential oracle inside the target (thorough tier).  Candidates are written
to a JSON-lines file and re-judged by the parent through c11.replay."""
import json
import os
import subprocess
import sys
import tempfile

from .. import VERIF_DIR


def _target_main(argv):
    runs, seed, corpus, out = int(argv[0]), int(argv[1]), argv[2], argv[3]
    import atheris

    with atheris.instrument_imports(include=["ecdsa"]):
        import ecdsa  # noqa
        from . import c11
    from ..runner import Ctx

    names = sorted(c11.READERS)
    seen = set()
    fh = open(out, "a")

    def one(data):
        if len(data) < 1:
            return
        rn = names[data[0] % len(names)]
        payload = bytes(data[1:])
        ctx = Ctx("C11", "thorough", seed, "fuzz", {})
        c11.judge(ctx, rn, payload)
        for sig in ctx.failures:
            if sig not in seen:
                seen.add(sig)
                fh.write(json.dumps({"reader": rn, "data": payload.hex(), "view": False}) + "\n")
                fh.flush()

    atheris.Setup([sys.argv[0], "-runs=%d" % runs, "-seed=%d" % seed, "-max_len=300", "-print_final_stats=1", corpus], one)
    atheris.Fuzz()


def campaign(ctx, runs, kind):
    from . import c11
    try:
        import atheris  # noqa
    except Exception as e:
        ctx.notes.append("atheris not importable: %r" % (e,))
        ctx.event("atheris:unavailable")
        return
    names = sorted(c11.READERS)
    with tempfile.TemporaryDirectory(prefix="c11fuzz_") as td:
        corpus = os.path.join(td, "corpus")
        os.makedirs(corpus)
        if kind == "seeded":
            for i, (rn, seed) in enumerate(c11.long_seeds()):
                with open(os.path.join(corpus, "s%03d" % i), "wb") as f:
                    f.write(bytes([names.index(rn)]) + seed)
        out = os.path.join(td, "findings.jsonl")
        open(out, "w").close()
        env = dict(os.environ)
        env["PYTHONPATH"] = os.pathsep.join([VERIF_DIR, os.path.join(VERIF_DIR, ".deps")])
        r = subprocess.run([sys.executable, "-W", "ignore", "-m", "pbt.checks.c11_fuzz", str(runs), str(ctx.seed),
                            corpus, out], env=env, capture_output=True, text=True, timeout=7200, cwd=VERIF_DIR)
        execs = 0
        for line in (r.stderr or "").splitlines():
            if "stat::number_of_executed_units" in line:
                execs = int(line.split()[-1])
        ctx.ev(execs)
        ctx.event("atheris:%s:execs" % kind, execs)
        if execs == 0:
            raise RuntimeError("atheris campaign produced no executions: %s" % (r.stderr or "")[-800:])
        for line in open(out):
            ctx.event("atheris:finding-candidates")
            c11.replay(ctx, json.loads(line))
        ctx.nontrivial(("atheris", kind, execs))
        ctx.sample({"kind": "atheris", "corpus": kind, "executions": execs})


if __name__ == "__main__":
    _target_main(sys.argv[1:])
