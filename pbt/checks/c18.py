"""C18 - points and keys shared between threads behave as if used sequentially."""
import dis
import hashlib
import itertools
import pickle

from hypothesis import strategies as st

from .. import gen
from .. import sched as S
from ..ref import ec as rec
from ..runner import run_hypothesis, exc_sig

import ecdsa.ellipticcurve as ELL
import ecdsa.ecdsa as ECD
import ecdsa.keys as KEYS
from ecdsa import SigningKey, VerifyingKey, BadSignatureError
from ecdsa.ellipticcurve import PointJacobi, INFINITY

RULE = (
    "Real threads run under a harness-owned scheduler (one runs at a time). Switch points: every LINE event "
    "and every LOAD_ATTR / STORE_ATTR of a private point field (__coords, __precompute, __order, ...) or of "
    "pubkey / point in the code of PointJacobi, Point, Public_key, Private_key and the VerifyingKey / SigningKey "
    "sign / verify / precompute methods (sys.monitoring INSTRUCTION events). Shared objects: a fresh generator "
    "whose table is not built yet (Z != 1), unnormalised points with non-zero pairwise distinct coordinates, a "
    "verifying key and a signing key, on a toy prime-order curve (exhaustive placements) and on NIST192p "
    "(sampled). For every ordered pair of operations (k*G, P*k, P+Q, Q+P, P==P', P==Q, x, y, to_affine, scale, "
    "pickle round trip of a point and of the generator, mul_add, verify valid / invalid, precompute, "
    "deterministic sign): EVERY placement of one preemption in the first thread (the second thread then runs to "
    "completion, then the first resumes); thorough tier: every placement of two preemptions on a stride; "
    "hypothesis-drawn schedules of 3 threads x 2 operations with up to 4 preemptions. Oracle: each result equals "
    "the result of the same operation on private fresh copies run sequentially, and no exception. Non-trivial = "
    "schedule in which the preempted thread had already accessed a private field of a shared point and the other "
    "thread accessed one too; distinct by (operation pair, preemption placement)."
)
ASSUMPTIONS = [
    "interleavings are explored up to 2 exhaustive / 4 sampled preemptions at bytecode-level accesses (CPython's atomicity unit)",
    "CPython >= 3.12 (sys.monitoring)",
]

CODES = S.code_objects(ELL.PointJacobi, ELL.Point, ECD.Public_key, ECD.Private_key) + S.code_objects(
    KEYS.VerifyingKey.verify, KEYS.VerifyingKey.verify_digest, KEYS.VerifyingKey.precompute,
    KEYS.SigningKey.sign_deterministic, KEYS.SigningKey.sign_digest_deterministic,
    KEYS.SigningKey.sign_digest, KEYS.SigningKey.sign_number)

_ATTR = {}


def _interesting(name):
    return name.startswith("_PointJacobi__") or name.startswith("_Point__") or name in ("point", "pubkey", "privkey")


for _c in CODES:
    for _i in dis.get_instructions(_c):
        if _i.opname in ("LOAD_ATTR", "STORE_ATTR") and isinstance(_i.argval, str) and _interesting(_i.argval):
            _ATTR[(_c, _i.offset)] = ("store" if _i.opname == "STORE_ATTR" else "load", _i.argval.split("__")[-1])


def instr_filter(code, offset):
    return (code, offset) in _ATTR


MSG = b"shared message"


class World:
    """shared objects + operations; a fresh World per schedule"""

    def __init__(self, cname):
        d = gen.dom(cname)
        self.d = d
        c, p, n = d.c, d.p, d.n
        cf = d.lib.curve
        G = d.G

        def jac(P, z, order=n, generator=False):
            return PointJacobi(cf, P[0] * z * z % p, P[1] * z * z * z % p, z, order, generator)

        # points with non-zero, pairwise distinct coordinates
        cand = []
        k = 2
        while len(cand) < 3:
            P = rec.mul(c, k, G)
            if P is not None and P[0] and P[1] and P[0] != P[1] and all(P[0] != q[0] for q in cand):
                cand.append(P)
            k += 1
        self.vP, self.vQ, self.vR = cand
        self.G = jac(G, 3, n, True)            # fresh generator, lazy table not built, Z != 1
        self.P = jac(self.vP, 5)
        self.P2 = jac(self.vP, 7)
        self.Q = jac(self.vQ, 11 % p or 2)
        self.GP = jac(self.vR, 2, n, True)     # a second table point (e.g. a precomputed public key)
        self.dd = n // 3 + 2
        self.sk = SigningKey.from_secret_exponent(self.dd, curve=d.lib, hashfunc=hashlib.sha256)
        self.vk = VerifyingKey.from_string(self.sk.get_verifying_key().to_string(), curve=d.lib, hashfunc=hashlib.sha256)
        self.sig = None
        self.badsig = None
        # a second, independent key pair of the same curve: shares nothing but curve.generator
        self.dd2 = n // 5 + 3
        self.sk2 = SigningKey.from_secret_exponent(self.dd2, curve=d.lib, hashfunc=hashlib.sha256)
        self.vk2 = VerifyingKey.from_string(self.sk2.get_verifying_key().to_string(), curve=d.lib, hashfunc=hashlib.sha256)
        self.sig2 = None
        # the first key again, built from an affine point object that declares no order
        Qd = rec.mul(c, self.dd, G)
        self.vk3 = VerifyingKey.from_public_point(ELL.Point(cf, Qd[0], Qd[1]), curve=d.lib, hashfunc=hashlib.sha256)

    _sigs = {}

    def prepare_sigs(self):
        if self.d.name not in World._sigs:
            sk = SigningKey.from_secret_exponent(self.dd, curve=self.d.lib, hashfunc=hashlib.sha256)
            sig = sk.sign_deterministic(MSG)
            l = len(sig) // 2
            s = int.from_bytes(sig[l:], "big")
            sk2 = SigningKey.from_secret_exponent(self.dd2, curve=self.d.lib, hashfunc=hashlib.sha256)
            World._sigs[self.d.name] = (sig, sig[:l] + ((s % (self.d.n - 1)) + 1).to_bytes(l, "big"),
                                        sk2.sign_deterministic(MSG))
        self.sig, self.badsig, self.sig2 = World._sigs[self.d.name]


def _aff(R):
    if R is INFINITY or R == INFINITY:
        return None
    return (int(R.x()), int(R.y()))


def _ops(n):
    k1, k2 = n - 2, n // 2 + 1
    return {
        "mul_gen": lambda w: _aff(w.G * k1),
        "rmul_gen": lambda w: _aff(k2 * w.G),
        "mul_P": lambda w: _aff(w.P * k2),
        "add_PQ": lambda w: _aff(w.P + w.Q),
        "add_QP": lambda w: _aff(w.Q + w.P),
        "eq_same": lambda w: (w.P == w.P2, w.P != w.P2),
        "eq_diff": lambda w: (w.P == w.Q, w.Q != w.P),
        "x_P": lambda w: int(w.P.x()),
        "y_P": lambda w: int(w.P.y()),
        "affine_P": lambda w: _aff(w.P.to_affine()),
        "scale_P": lambda w: _aff(w.P.scale()),
        "double_P": lambda w: _aff(w.P.double()),
        "neg_P": lambda w: _aff(-w.P),
        "pickle_P": lambda w: _aff(pickle.loads(pickle.dumps(w.P))),
        "pickle_gen": lambda w: _aff(pickle.loads(pickle.dumps(w.G)) * k2),
        "muladd": lambda w: _aff(w.G.mul_add(k1, w.P, k2)),
        "muladd_tables": lambda w: _aff(w.G.mul_add(k2, w.GP, k1)),
        "verify": lambda w: w.vk.verify(w.sig, MSG),
        "verify_other_key": lambda w: w.vk2.verify(w.sig2, MSG),
        "sign_other_key": lambda w: w.sk2.sign_deterministic(MSG).hex(),
        "verify_bad": lambda w: _verify_bad(w),
        "precompute": lambda w: (w.vk.precompute(lazy=True), w.vk.verify(w.sig, MSG))[1],
        "precompute_eager": lambda w: (w.vk.precompute(lazy=False), _aff(w.vk.pubkey.point))[1],
        "sign": lambda w: w.sk.sign_deterministic(MSG).hex(),
        "pub_x": lambda w: int(w.vk.pubkey.point.x()),
        "vk_to_string": lambda w: (w.vk.to_string("compressed").hex(), w.vk.to_string().hex()),
        "vk_eq": lambda w: (w.vk == w.sk.get_verifying_key(), w.vk != w.vk2),
        "verify_noorder": lambda w: w.vk3.verify(w.sig, MSG),
        "precompute_noorder": lambda w: (w.vk3.precompute(lazy=True), _aff(w.vk3.pubkey.point))[1],
        "precompute_eager_noorder": lambda w: (w.vk3.precompute(lazy=False), w.vk3.verify(w.sig, MSG))[1],
    }


def _verify_bad(w):
    try:
        return w.vk.verify(w.badsig, MSG)
    except BadSignatureError:
        return "BadSignatureError"


_expected = {}


def expected(cname, opname):
    key = (cname, opname)
    if key not in _expected:
        w = World(cname)
        w.prepare_sigs()
        _expected[key] = _ops(w.d.n)[opname](w)
    return _expected[key]


_ADOPTED = []


def _adopt():
    """mutexes of the library (none on the pinned tree) become scheduler-aware, also those made at import time"""
    if not _ADOPTED:
        import ecdsa.curves as CUR
        import ecdsa.util as UTL
        import ecdsa._rwlock as RWL
        for m in (ELL, ECD, KEYS, CUR, UTL, RWL):
            S.adopt_locks(m)
        _ADOPTED.append(True)


def run_schedule(cname, opnames, plan):
    """plan: list of [thread index, n switch points or None (= run quietly to completion)].
    Threads not finished at the end of the plan are completed quietly in index order.
    -> (results, errors, stats)"""
    _adopt()
    w = World(cname)
    w.prepare_sigs()
    ops = _ops(w.d.n)
    sc = S.Sched()
    S.FakeLock.sched = sc
    results = {}
    for i, nm in enumerate(opnames):
        def fn(t, nm=nm, i=i):
            results[i] = ops[nm](w)
        sc.spawn(fn, "%s#%d" % (nm, i))
    seg = {"i": 0, "left": None}
    plan = [list(x) for x in plan]
    def chooser(sc_, runnable, step):
        # one scheduler step per plan segment: the chosen thread passes cnt switch points on its own
        # (fast-forward, no baton hand-off) and yields at the cnt-th, or runs quietly to completion
        while True:
            if seg["i"] >= len(plan):
                sc_.quiet = True
                return 0
            ti, cnt = plan[seg["i"]]
            seg["i"] += 1
            t = sc_.threads[ti] if ti < len(sc_.threads) else None
            if t is None or t.done or cnt == 0:
                continue
            if t not in runnable:
                # the planned thread waits for a (stand-in) lock: let the holder run on first
                seg["i"] -= 1
                sc_.quiet = True
                return 0
            if cnt is None:
                sc_.quiet = True
            else:
                sc_.quiet = False
                t.skip = cnt - 1
            return runnable.index(t)

    mon = _monitor()
    mon.sched = sc
    mon.line_events = mon.instr_events = 0
    outcome = sc.run(chooser, max_steps=200000)
    errors = []
    for t in sc.threads:
        if t.exc is not None:
            errors.append((t.idx, t.exc))
    stats = {"switches": [t.switches for t in sc.threads], "outcome": outcome,
             "line_events": mon.line_events, "instr_events": mon.instr_events}
    return results, errors, stats, sc


_MON = None


def _monitor():
    """one monitor for the life of the process (installing instrumentation is expensive)"""
    global _MON
    if _MON is None:
        _MON = S.Monitor(S.Sched(), CODES, lines=True, instr_filter=instr_filter)
        _MON.__enter__()
    return _MON


def count_switches(cname, opname):
    """number of switch points of the operation when run alone"""
    res, errs, stats, sc = run_schedule(cname, [opname], [[0, 10 ** 9]])
    return stats["switches"][0]


def check_schedule(ctx, case, enum=False):
    cname, opnames, plan = case["curve"], case["ops"], case["plan"]
    if ctx.counters.get("stuck-schedules", 0) >= 6:
        # the code under test blocks on primitives the scheduler does not own; every such schedule costs the
        # watchdog delay and says nothing: stop exploring in this unit
        ctx.event("skipped-after-6-stuck-schedules")
        return None
    ctx.ev()
    ctx.case_sample(case)
    try:
        results, errors, stats, sc = run_schedule(cname, opnames, plan)
    except Exception as e:
        raise
    pair = "+".join(opnames[:2])
    for idx, e in errors:
        ctx.fail("exception/%s/%s/%s" % (opnames[idx], type(e).__name__, exc_sig(e).split("@")[-1]), case,
                 "thread %d (%s) raised %r under plan %r" % (idx, opnames[idx], e, plan))
    if stats["outcome"] == "stuck":
        # a thread blocked on a primitive outside the harness (a real lock held by the preempted thread):
        # this placement cannot be explored, which is not a verdict about the library
        ctx.event("stuck-schedules")
        return stats
    if stats["outcome"] != "done":
        ctx.fail("schedule-did-not-finish/%s" % stats["outcome"], case, "")
    for i, nm in enumerate(opnames):
        if any(idx == i for idx, _ in errors):
            continue
        want = expected(cname, nm)
        if i in results and results[i] != want:
            other = [o for j, o in enumerate(opnames) if j != i]
            ctx.fail("wrong-result/%s/concurrent-with-%s" % (nm, "+".join(sorted(set(other)))), case,
                     "got %r, sequential result %r" % (results[i], want))
    sw = stats["switches"]
    preempted = sum(1 for x in plan if x[1] is not None and x[1] > 0)
    if stats["instr_events"] > 0 and preempted and len([s for s in sw if s > 0]) >= 1:
        if enum:
            ctx.nontrivial_enum()
        else:
            ctx.nontrivial(("sched", cname, tuple(opnames), repr(plan)))
    return stats


def sweep_pair(ctx, cname, a, b, two=False, stride=1):
    na = count_switches(cname, a)
    if na == 0:
        raise RuntimeError("no switch points recorded for %s - monitoring is not working" % a)
    ctx.event("switch-points:%s" % a, 0)
    if stride == 0:
        stride = max(1, na // 40)       # about 40 evenly spaced placements
    for i in range(0, na + 1, stride):
        check_schedule(ctx, {"curve": cname, "ops": [a, b], "plan": [[0, i], [1, None], [0, None]]}, enum=True)
    ctx.event("pairs")
    if two:
        nb = count_switches(cname, b)
        for i in range(1, na, max(1, na // 12)):
            for j in range(1, nb, max(1, nb // 12)):
                check_schedule(ctx, {"curve": cname, "ops": [a, b],
                                     "plan": [[0, i], [1, j], [0, None], [1, None]]}, enum=True)


OPS = list(_ops(29))
MUTATORS = ["mul_gen", "rmul_gen", "mul_P", "scale_P", "affine_P", "muladd", "muladd_tables", "precompute",
            "precompute_eager", "pickle_gen", "verify", "sign", "verify_other_key"]


NOORDER = ["verify_noorder", "precompute_noorder", "precompute_eager_noorder"]
SECOND_QUICK = ["x_P", "eq_same", "add_PQ", "pickle_P", "pickle_gen", "mul_gen", "verify",
                "muladd", "scale_P", "verify_other_key", "vk_to_string"]


def units(tier, seed):
    q = tier == "quick"
    out = []
    pairs = [(a, b) for a in OPS for b in OPS]
    if q:
        # every placement of one preemption for every pair whose first (preempted) operation mutates
        # shared state, against a representative set of second operations; plus readers preempted in the
        # middle of their (multi-step) reads while a mutator runs
        readers = ["x_P", "y_P", "eq_same", "eq_diff", "add_PQ", "add_QP", "double_P", "neg_P", "pickle_P",
                   "affine_P", "pub_x", "vk_to_string", "vk_eq"]
        writers = ["scale_P", "affine_P", "mul_P", "muladd", "precompute", "precompute_eager"]
        pairs = [(a, b) for (a, b) in pairs if (a in MUTATORS and b in SECOND_QUICK) or (a in readers and b in writers)]
        pairs += [(a, b) for a in NOORDER for b in NOORDER] + [("precompute_noorder", "pub_x"), ("verify_noorder", "verify"),
                                                               ("verify", "verify_noorder"),
                                                               ("verify", "verify_bad"), ("verify_bad", "verify"),
                                                               ("verify_bad", "verify_bad")]
    # balance: long first operations first
    chunks = 30 if q else 60
    for i in range(chunks):
        out.append(("pairs", {"curve": "t23a", "pairs": pairs[i::chunks], "two": not q, "stride": 1}))
    big = [("mul_gen", "mul_gen"), ("mul_gen", "pickle_gen"), ("scale_P", "x_P"), ("scale_P", "eq_same"),
           ("muladd", "add_PQ"), ("precompute", "verify"), ("verify", "verify"), ("mul_gen", "verify")]
    if not q:
        big = [(a, b) for a in ("mul_gen", "scale_P", "muladd", "precompute", "verify") for b in
               ("mul_gen", "x_P", "eq_same", "pickle_gen", "verify", "add_PQ")]
    for i in range(len(big) if q else 10):
        out.append(("pairs", {"curve": "NIST192p", "pairs": big[i::(len(big) if q else 10)], "two": False,
                              "stride": 0 if q else 11}))
    for i in range(4):
        out.append(("random", {"curve": "t23a", "examples": 120 if q else 4000, "label": "r%d" % i}))
    return out


def run_unit(ctx, name, **kw):
    if name == "pairs":
        for a, b in kw["pairs"]:
            sweep_pair(ctx, kw["curve"], a, b, kw["two"], kw["stride"])
        if kw["pairs"]:
            a, b = kw["pairs"][0]
            ctx.sample({"curve": kw["curve"], "ops": [a, b], "plan": "[[0, i], [1, None], [0, None]] for every i",
                        "switch_points_of_first": count_switches(kw["curve"], a)})
        if kw["stride"] == 1:
            ctx.exhausted("one preemption at every switch point of the first operation, listed pairs")
    elif name == "random":
        def body(c, v):
            names, segs = v
            plan = [[t % len(names), cnt] for t, cnt in segs]
            case = {"curve": kw["curve"], "ops": names, "plan": plan}
            check_schedule(c, case)
            c.sample(case)
        strat = st.tuples(st.lists(st.sampled_from(OPS), min_size=2, max_size=3),
                          st.lists(st.tuples(st.integers(0, 2), st.integers(1, 120)), min_size=1, max_size=4))
        run_hypothesis(ctx, kw["label"], strat, body, kw["examples"])
    else:
        raise ValueError(name)


def replay(ctx, case):
    check_schedule(ctx, case)
