"""C11 - DER codecs: round trip and canonical-only acceptance."""
import itertools

from hypothesis import strategies as st

from .. import gen
from ..ref import der as R
from ..runner import run_hypothesis, exc_sig, srepr

from ecdsa import der as D

RULE = (
    "Decoder inputs: every byte string of length <=2 (quick) / <=3 (thorough) for each of "
    "the 9 readers, every length-3 string and a length-4 slice starting with the reader's own "
    "tag, single-edit and length-field mutations of valid long encodings, hypothesis TLV "
    "strings; each is judged against a strict X.690 reference: accepted iff canonical, value "
    "equal, remainder equal, re-encoding reproduces the consumed bytes. Encoder inputs: "
    "boundary-biased integers, lengths, OID arc tuples, bodies; decode(encode(v)+suffix) == "
    "(v, suffix) and bytes equal the reference encoder. Non-trivial = decoder input that is "
    "not the canonical encoding of a value of that type but starts with the right tag or is "
    "empty/truncated (so the tag check alone does not decide), or a round-trip value at a "
    "length/sign boundary; distinct by (reader, bytes) - enumerated without repetition."
)
ASSUMPTIONS = [
    "pbt/ref/der.py implements X.690 DER for the universal types used",
    "identifier octet 0xBF (high-tag-number form) is outside remove_constructed's domain and only checked for exception type",
    "deprecated call convention of remove_bitstring/encode_bitstring (argument omitted) is checked for exception type only",
]

UD = D.UnexpectedDER


# ---- reference verdicts: return ("ok", value, rest) or ("bad", why)
def _ref_tlv(data, want_tag):
    try:
        tag, content, end = R.read_tlv(data, 0)
    except R.DERError as e:
        return None, str(e)
    if tag != want_tag:
        return None, "tag"
    return (content, data[end:]), None


def ref_integer(data):
    r, why = _ref_tlv(data, 0x02)
    if r is None:
        return ("bad", why)
    try:
        v = R.dec_int(r[0])
    except R.DERError as e:
        return ("bad", str(e))
    if v < 0:
        return ("bad", "negative")
    return ("ok", v, r[1])


def ref_length(data):
    try:
        n, pos = R.read_len(data, 0)
    except R.DERError as e:
        return ("bad", str(e))
    return ("ok", (n, pos), None)


def ref_object(data):
    r, why = _ref_tlv(data, 0x06)
    if r is None:
        return ("bad", why)
    try:
        v = R.dec_oid(r[0])
    except R.DERError as e:
        return ("bad", str(e))
    return ("ok", v, r[1])


def make_ref_bitstring(expect):
    def ref(data):
        r, why = _ref_tlv(data, 0x03)
        if r is None:
            return ("bad", why)
        try:
            body, unused = R.dec_bitstring(r[0])
        except R.DERError as e:
            return ("bad", str(e))
        if expect is None:
            return ("ok", (body, unused), r[1])
        if unused != expect:
            return ("bad", "unused")
        return ("ok", body, r[1])
    return ref


def ref_octets(data):
    r, why = _ref_tlv(data, 0x04)
    if r is None:
        return ("bad", why)
    return ("ok", r[0], r[1])


def ref_sequence(data):
    r, why = _ref_tlv(data, 0x30)
    if r is None:
        return ("bad", why)
    return ("ok", r[0], r[1])


def ref_constructed(data):
    if not data:
        return ("bad", "empty")
    t = data[0]
    if t & 0xE0 != 0xA0:
        return ("bad", "tag")
    if t == 0xBF:
        return ("unjudged",)
    r, why = _ref_tlv(data, t)
    if r is None:
        return ("bad", why)
    return ("ok", (t & 0x1F, r[0]), r[1])


def ref_number(data):
    if not data:
        return ("bad", "empty")
    if data[0] == 0x80:
        return ("bad", "padded")
    n = 0
    for i, b in enumerate(data):
        n = (n << 7) | (b & 0x7F)
        if not b & 0x80:
            return ("ok", (n, i + 1), None)
    return ("bad", "unterminated")


def _norm(v):
    if isinstance(v, (bytes, bytearray, memoryview)):
        return bytes(v)
    if isinstance(v, tuple):
        return tuple(_norm(x) for x in v)
    return v


# name -> (library call, reference, re-encoder(value)->bytes or None, tags)
def _lib_constructed(s):
    tag, body, rest = D.remove_constructed(s)
    return (tag, body), rest


def _lib_pair(fn):
    def call(s):
        return fn(s), None
    return call


READERS = {
    "integer": (D.remove_integer, ref_integer, lambda v: R.enc_int(v), (0x02,)),
    "length": (_lib_pair(D.read_length), ref_length, None, tuple(range(256))),
    "object": (D.remove_object, ref_object, lambda v: R.enc_oid(v), (0x06,)),
    "bitstring0": (lambda s: D.remove_bitstring(s, 0), make_ref_bitstring(0),
                   lambda v: R.enc_bitstring(v, 0), (0x03,)),
    "bitstringN": (lambda s: D.remove_bitstring(s, None), make_ref_bitstring(None),
                   lambda v: R.enc_bitstring(v[0], v[1]), (0x03,)),
    "bitstring3": (lambda s: D.remove_bitstring(s, 3), make_ref_bitstring(3),
                   lambda v: R.enc_bitstring(v, 3), (0x03,)),
    "octets": (D.remove_octet_string, ref_octets, lambda v: R.enc_octets(v), (0x04,)),
    "sequence": (D.remove_sequence, ref_sequence, lambda v: R.tlv(0x30, v), (0x30,)),
    "constructed": (_lib_constructed, ref_constructed,
                    lambda v: R.tlv(0xA0 + v[0], v[1]), tuple(range(0xA0, 0xC0))),
    "number": (_lib_pair(D.read_number), ref_number, None, tuple(range(256))),
}


def judge(ctx, rname, data, enum=False, as_view=False):
    lib, ref, reenc, tags = READERS[rname]
    ctx.ev()
    want = ref(data)
    if as_view:
        # rotate through the bytes-like types a caller may hand over
        # (signed-char views are NOT offered here: the der-level functions take byte strings that the
        # public entry points have already normalised to unsigned bytes; C10/C12 offer them there)
        k = (len(data) + (data[-1] if data else 0)) % 3
        arg = memoryview(data) if k == 0 else (memoryview(bytearray(data)) if k == 1 else bytearray(data))
    else:
        arg = data
    case = {"reader": rname, "data": data.hex(), "view": as_view}
    ctx.case_sample(case)
    try:
        val, rest = lib(arg)
        got = ("ok", _norm(val), None if rest is None else bytes(rest))
    except UD:
        got = ("bad",)
    except Exception as e:
        got = ("exc", e)
    nontriv = want[0] != "ok" and (not data or data[0] in tags)
    if nontriv:
        if enum:
            ctx.nontrivial_enum()
        else:
            ctx.nontrivial((rname, data))
    ctx.event("%s:%s" % (rname, want[0]))
    if got[0] == "exc":
        cls = "empty" if not data else ("short" if len(data) < 3 else "other")
        ctx.fail("%s/exception/%s/%s" % (rname, type(got[1]).__name__, cls), case,
                 "%s (reference: %s)" % (srepr(got[1]), srepr(want[:2])))
        return
    if want[0] == "unjudged":
        return
    if want[0] == "bad":
        if got[0] == "ok":
            ctx.fail("%s/accepted-non-canonical/%s" % (rname, want[1].replace(" ", "-")), case,
                     "library returned %s, reference rejects: %s" % (srepr(got[1:]), srepr(want[1])))
        return
    # reference accepts
    if got[0] == "bad":
        ctx.fail("%s/rejected-canonical" % rname, case, "reference value %s" % (srepr(want[1]),))
        return
    if got[1] != _norm(want[1]) or got[2] != want[2]:
        ctx.fail("%s/wrong-value" % rname, case, "library %s reference %s" % (srepr(got[1:]), srepr(want[1:])))
        return
    if reenc is not None:
        if reenc(got[1]) + got[2] != data:
            ctx.fail("%s/reencode-differs" % rname, case, "")


# ---------------------------------------------------------------- encoders
def _int_boundaries():
    out = {0, 1, 127, 128, 255, 256}
    for k in (15, 16, 23, 24, 31, 32, 63, 64, 127, 128, 255, 256, 511, 512, 1016, 1024):
        out |= {(1 << k) - 1, 1 << k, (1 << k) + 1}
    return sorted(out)


def roundtrip_case(ctx, case):
    kind = case["kind"]
    suffix = bytes.fromhex(case.get("suffix", ""))
    ctx.ev()
    try:
        if kind == "integer":
            v = case["v"]
            enc = D.encode_integer(v)
            want = R.enc_int(v)
            dec = D.remove_integer(enc + suffix)
            ok = dec[0] == v and bytes(dec[1]) == suffix
            edge = v.bit_length() % 8 in (0, 7, 1) or v < 2
        elif kind == "length":
            v = case["v"]
            enc = D.encode_length(v)
            want = R.enc_len(v)
            dec = D.read_length(enc + suffix)
            ok = dec == (v, len(enc))
            edge = v in (0, 127, 128, 255, 256, 65535, 65536) or v.bit_length() % 8 == 0
        elif kind == "oid":
            v = tuple(case["v"])
            enc = D.encode_oid(*v)
            want = R.enc_oid(v)
            dec = D.remove_object(enc + suffix)
            ok = dec[0] == v and bytes(dec[1]) == suffix
            edge = any(a in (0, 127, 128, 16383, 16384) for a in v) or (v[0] == 2 and v[1] > 39)
        elif kind == "number":
            v = case["v"]
            enc = D.encode_number(v)
            want = R.enc_b128(v)
            dec = D.read_number(enc + suffix)
            ok = dec == (v, len(enc))
            edge = v in (0, 127, 128, 16383, 16384)
        elif kind == "bitstring":
            body = bytes.fromhex(case["body"])
            unused = case["unused"]
            enc = D.encode_bitstring(body, unused)
            want = R.enc_bitstring(body, unused)
            dec = D.remove_bitstring(enc + suffix, None)
            dec2 = D.remove_bitstring(enc + suffix, unused)
            ok = (bytes(dec[0][0]), dec[0][1], bytes(dec[1])) == (body, unused, suffix) \
                and (bytes(dec2[0]), bytes(dec2[1])) == (body, suffix)
            edge = unused > 0 or len(body) in (0, 126, 127, 128, 254, 255, 256)
        elif kind == "octets":
            body = bytes.fromhex(case["body"])
            enc = D.encode_octet_string(body)
            want = R.enc_octets(body)
            dec = D.remove_octet_string(enc + suffix)
            ok = (bytes(dec[0]), bytes(dec[1])) == (body, suffix)
            edge = len(body) in (0, 127, 128, 255, 256)
        elif kind == "sequence":
            parts = [bytes.fromhex(x) for x in case["parts"]]
            enc = D.encode_sequence(*parts)
            want = R.tlv(0x30, b"".join(parts))
            dec = D.remove_sequence(enc + suffix)
            ok = (bytes(dec[0]), bytes(dec[1])) == (b"".join(parts), suffix)
            edge = len(b"".join(parts)) in (0, 127, 128, 255, 256)
        elif kind == "constructed":
            body = bytes.fromhex(case["body"])
            tag = case["tag"]
            enc = D.encode_constructed(tag, body)
            want = R.enc_ctx(tag, body)
            dec = D.remove_constructed(enc + suffix)
            ok = (dec[0], bytes(dec[1]), bytes(dec[2])) == (tag, body, suffix)
            edge = len(body) in (0, 127, 128, 255, 256) or tag in (0, 30)
        else:
            raise ValueError(kind)
    except Exception as e:
        ctx.fail("roundtrip/%s/exception/%s" % (kind, exc_sig(e)), case, repr(e))
        return
    if enc != want:
        ctx.fail("roundtrip/%s/encoder-not-canonical" % kind, case,
                 "library %s reference %s" % (enc.hex()[:80], want.hex()[:80]))
    elif not ok:
        ctx.fail("roundtrip/%s/decode-differs" % kind, case, repr(dec)[:200])
    ctx.event("roundtrip:" + kind)
    if edge:
        ctx.nontrivial(("rt", kind, repr(sorted(case.items()))))


def st_roundtrip():
    ints = st.one_of(st.sampled_from(_int_boundaries()), st.integers(0, 1 << 1100),
                     st.integers(0, 1 << 16))
    lens = st.one_of(st.sampled_from([0, 1, 127, 128, 129, 255, 256, 65535, 65536, (1 << 32) - 1, 1 << 32]),
                     st.integers(0, 1 << 40))
    arc = st.one_of(st.sampled_from([0, 1, 39, 40, 127, 128, 16383, 16384, (1 << 70) - 1]),
                    st.integers(0, 1 << 70))
    oid = st.one_of(
        st.tuples(st.integers(0, 1), st.integers(0, 39)),
        st.tuples(st.just(2), arc),
    ).flatmap(lambda h: st.lists(arc, max_size=12).map(lambda t: list(h) + t))
    body = st.one_of(st.binary(max_size=40),
                     st.sampled_from([0, 1, 126, 127, 128, 129, 254, 255, 256, 257, 70000]).flatmap(
                         lambda n: st.binary(min_size=n, max_size=n)))
    suffix = st.one_of(st.just(b""), st.binary(max_size=5))

    def bits(b, u):
        if not b:
            return {"kind": "bitstring", "body": "", "unused": 0}
        b = b[:-1] + bytes([b[-1] & (0xFF << u) & 0xFF])
        return {"kind": "bitstring", "body": b.hex(), "unused": u}

    base = st.one_of(
        ints.map(lambda v: {"kind": "integer", "v": v}),
        lens.map(lambda v: {"kind": "length", "v": v}),
        oid.map(lambda v: {"kind": "oid", "v": v}),
        arc.map(lambda v: {"kind": "number", "v": v}),
        st.builds(bits, body, st.integers(0, 7)),
        body.map(lambda b: {"kind": "octets", "body": b.hex()}),
        st.lists(st.binary(max_size=100), max_size=5).map(
            lambda p: {"kind": "sequence", "parts": [x.hex() for x in p]}),
        st.builds(lambda t, b: {"kind": "constructed", "tag": t, "body": b.hex()},
                  st.integers(0, 30), body),
    )
    return st.builds(lambda c, s: dict(c, suffix=s.hex()), base, suffix)


# ---------------------------------------------------------------- seeds for mutation
def long_seeds():
    seeds = []
    for n in (0, 1, 5, 127, 128, 200, 256, 300):
        body = bytes((i * 7 + 3) & 0xFF for i in range(n))
        seeds.append(("octets", R.enc_octets(body)))
        seeds.append(("sequence", R.tlv(0x30, body)))
        seeds.append(("constructed", R.enc_ctx(1, body)))
        seeds.append(("bitstring0", R.enc_bitstring(body, 0)))
        seeds.append(("bitstringN", R.enc_bitstring(body[:-1] + b"\xf8" if n else b"", 3 if n else 0)))
    for v in (0, 127, 128, 2 ** 255 - 19, 2 ** 256 - 1, 2 ** 1024 + 1, 2 ** 1100):
        seeds.append(("integer", R.enc_int(v)))
    seeds.append(("object", b"\x06\x82\x08\x35\x2b" + b"\xff" * 2100))          # last arc never terminated, 2100 octets
    seeds.append(("number", b"\xff" * 2100))
    seeds.append(("object", R.tlv(0x06, b"\x2b" + b"\xff" * 2100 + b"\x7f")))    # terminated huge arc (valid)
    for oid in ((1, 2, 840, 10045, 2, 1), (2, 999, 3), (1, 3, 36, 3, 3, 2, 8, 1, 1, 13),
                (0, 0), (2, 2 ** 70, 0, 128, 16384) + tuple(range(40))):
        seeds.append(("object", R.enc_oid(oid)))
    return seeds


def units(tier, seed):
    out = [("interleaved", {"stride": 1, "max": 3000 if tier == "quick" else 30000})]
    names = list(READERS)
    # exhaustive short strings: one unit per (reader, slice)
    for rn in names:
        out.append(("short", {"reader": rn, "maxlen": 2}))
        if tier == "quick":
            out.append(("len3-tagged", {"reader": rn}))
            out.append(("len4-tagged", {"reader": rn, "lens": [0, 1, 2, 3, 0x7F, 0x80, 0x81, 0x82, 0x83]}))
        else:
            for hi in range(0, 256, 32):
                out.append(("len3-all", {"reader": rn, "lo": hi, "hi": hi + 32}))
            for lens in ([0, 1, 2, 3, 4, 5, 0x7E], [0x7F, 0x80, 0x81, 0x82], [0x83, 0x84, 0x88, 0xFF]):
                out.append(("len4-tagged", {"reader": rn, "lens": lens}))
    out.append(("mutations", {}))
    out.append(("roundtrip", {"examples": 4000 if tier == "quick" else 60000}))
    out.append(("tlv-random", {"examples": 4000 if tier == "quick" else 60000}))
    if tier != "quick":
        out.append(("atheris", {"runs": 600000, "corpus": "empty"}))
        out.append(("atheris", {"runs": 600000, "corpus": "seeded"}))
    out.append(("faults", {"jobset": 'der', "arg": None, "examples": 40 if tier == "quick" else 1500, "triples": 400 if tier == "quick" else 20000}))
    return out


def _tags_for(rn):
    tags = READERS[rn][3]
    return tags


def _interleaved_jobs():
    oid1, oid2 = (1, 2, 840, 10045, 3, 1, 7), (1, 3, 36, 3, 3, 2, 8, 1, 1, 13)

    def a():
        e = D.encode_sequence(D.encode_integer(2 ** 200 + 5), D.encode_oid(*oid1), D.encode_octet_string(b"\x01" * 130),
                              D.encode_bitstring(b"\xf0", 4), D.encode_constructed(1, b"zz"))
        body, rest = D.remove_sequence(e + b"tail")
        i, body = D.remove_integer(body)
        o, body = D.remove_object(body)
        oc, body = D.remove_octet_string(body)
        bs, body = D.remove_bitstring(body, 4)
        tag, inner, body = D.remove_constructed(body)
        return [bytes(e), i, o, bytes(oc), bytes(bs), tag, bytes(inner), bytes(body), bytes(rest)]

    def b():
        e = D.encode_sequence(D.encode_integer(127), D.encode_oid(*oid2), D.encode_octet_string(b""), D.encode_bitstring(b"\x80", 7),
                              D.encode_constructed(0, b"\x05\x00"))
        body, rest = D.remove_sequence(e)
        i, body = D.remove_integer(body)
        o, body = D.remove_object(body)
        oc, body = D.remove_octet_string(body)
        bs, body = D.remove_bitstring(body, 7)
        tag, inner, body = D.remove_constructed(body)
        return [bytes(e), i, o, bytes(oc), bytes(bs), tag, bytes(inner), bytes(body), bytes(rest)]
    return {"a": a, "b": b}


def run_unit(ctx, name, **kw):
    if name == "faults":
        from . import faults
        faults.run_set(ctx, **kw)
        return
    if name == "interleaved":
        from .purity import interleaved_pure
        interleaved_pure(ctx, "der", [D], _interleaved_jobs(), kw["stride"], max_schedules=kw["max"])
        return
    if name == "short":
        rn = kw["reader"]
        for L in range(0, kw["maxlen"] + 1):
            for t in itertools.product(range(256), repeat=L):
                judge(ctx, rn, bytes(t), enum=True)
        ctx.exhausted("%s: all strings of length <= %d" % (rn, kw["maxlen"]))
        ctx.sample({"reader": rn, "data": "", "note": "and all strings up to length %d" % kw["maxlen"]})
    elif name == "len3-tagged":
        rn = kw["reader"]
        tags = _tags_for(rn)
        if len(tags) == 256:
            tags = (0x00, 0x01, 0x7F, 0x80, 0x81, 0x82, 0x83, 0xFF)
        elif len(tags) > 1:
            tags = (0xA0, 0xA1, 0xA5, 0xBE, 0xBF)
        for t0 in tags:
            for t in itertools.product(range(256), repeat=2):
                judge(ctx, rn, bytes((t0,) + t), enum=True)
        ctx.exhausted("%s: all length-3 strings starting with tag(s) %s" % (rn, [hex(t) for t in tags][:8]))
    elif name == "len3-all":
        rn = kw["reader"]
        for t0 in range(kw["lo"], kw["hi"]):
            for t in itertools.product(range(256), repeat=2):
                judge(ctx, rn, bytes((t0,) + t), enum=True)
        ctx.exhausted("%s: all length-3 strings" % rn)
    elif name == "len4-tagged":
        rn = kw["reader"]
        tags = _tags_for(rn)
        if len(tags) == 256:
            # readers without a tag: the first byte is the length / number
            # itself; long forms only, bytes 3-4 over a boundary alphabet
            alpha = (0x00, 0x01, 0x7F, 0x80, 0x81, 0xFF) if ctx.tier == "quick" else tuple(range(0, 256, 5)) + (0x7F, 0x81, 0xFF)
            for t0 in kw["lens"]:
                if t0 < 0x80:
                    continue
                for b1 in range(256):
                    for b2 in alpha:
                        for b3 in alpha:
                            judge(ctx, rn, bytes((t0, b1, b2, b3)), enum=True)
            return
        if len(tags) > 1:
            tags = (0xA0, 0xBE)
        for t0 in tags:
            for l in kw["lens"]:
                for t in itertools.product(range(256), repeat=2):
                    judge(ctx, rn, bytes((t0, l) + t), enum=True)
        ctx.sample({"reader": rn, "data": bytes((tags[0], kw["lens"][-1], 0, 0)).hex(),
                    "note": "one of the length-4 slice"})
    elif name == "mutations":
        # bodies of 2^24 bytes need the four-octet length form 84 01 00 00 00
        big = bytes(1 << 24)
        for kind, case in (("octets", {"kind": "octets"}), ("sequence", {"kind": "sequence"}),
                           ("constructed", {"kind": "constructed", "tag": 1}), ("bitstring", {"kind": "bitstring", "unused": 0})):
            ctx.ev()
            try:
                if kind == "octets":
                    enc = D.encode_octet_string(big); dec = D.remove_octet_string(enc + b"\x05")
                    ok = enc[:6] == b"\x04\x84\x01\x00\x00\x00" and len(dec[0]) == len(big) and bytes(dec[1]) == b"\x05"
                elif kind == "sequence":
                    enc = D.encode_sequence(big); dec = D.remove_sequence(enc + b"\x05")
                    ok = enc[:6] == b"\x30\x84\x01\x00\x00\x00" and len(dec[0]) == len(big) and bytes(dec[1]) == b"\x05"
                elif kind == "constructed":
                    enc = D.encode_constructed(1, big); dec = D.remove_constructed(enc + b"\x05")
                    ok = enc[:6] == b"\xa1\x84\x01\x00\x00\x00" and dec[0] == 1 and len(dec[1]) == len(big) and bytes(dec[2]) == b"\x05"
                else:
                    enc = D.encode_bitstring(big[:-1], 0); dec = D.remove_bitstring(enc + b"\x05", 0)
                    ok = enc[:6] == b"\x03\x84\x01\x00\x00\x00" and len(dec[0]) == len(big) - 1 and bytes(dec[1]) == b"\x05"
                if not ok:
                    ctx.fail("roundtrip/%s/16MiB-body" % kind, {"kind": "big-body", "reader": kind}, "decode differs")
            except Exception as e:
                ctx.fail("roundtrip/%s/16MiB-body/%s" % (kind, exc_sig(e)), {"kind": "big-body", "reader": kind}, repr(e))
            ctx.nontrivial(("big-body", kind))
        del big
        seen = set()
        for rn, seed in long_seeds():
            judge(ctx, rn, seed)
            for kind, m in itertools.chain(gen.length_mutations(seed),
                                           gen.mutations(seed) if len(seed) < 80 else ()):
                if (rn, m) in seen:
                    continue
                seen.add((rn, m))
                ctx.event("mut:" + kind)
                judge(ctx, rn, m, as_view=(len(seen) % 5 == 0))
            ctx.sample({"reader": rn, "seed": seed.hex()[:60], "note": "all length/tag/content mutations"})
    elif name == "roundtrip":
        def body(c, case):
            roundtrip_case(c, case)
            c.sample(case)
        run_hypothesis(ctx, "rt", st_roundtrip(), body, kw["examples"])
    elif name == "tlv-random":
        tagst = st.sampled_from([0x02, 0x03, 0x04, 0x06, 0x30, 0xA0, 0xA1, 0xBE, 0x05, 0x31])
        lenst = st.one_of(
            st.integers(0, 140).map(R.enc_len),
            st.sampled_from([b"\x80", b"\x81\x00", b"\x81\x7f", b"\x81\x80", b"\x82\x00\x80",
                             b"\x82\x01\x00", b"\x83\x00\x01\x00", b"\x84\xff\xff\xff\xff", b"\x81", b"\x82\x01"]),
        )
        strat = st.tuples(st.sampled_from(list(READERS)), tagst, lenst, st.binary(max_size=140),
                          st.booleans())

        def body(c, v):
            rn, tag, l, content, view = v
            data = bytes([tag]) + l + content
            if rn in ("length", "number"):
                data = l + content
            judge(c, rn, data, as_view=view)
            c.sample({"reader": rn, "data": data.hex()})
        run_hypothesis(ctx, "tlv", strat, body, kw["examples"])
    elif name == "atheris":
        from . import c11_fuzz
        c11_fuzz.campaign(ctx, kw["runs"], kw["corpus"])
    else:
        raise ValueError(name)


def replay(ctx, case):
    if case.get("kind") == "fault-history":
        from . import faults
        faults.replay(ctx, case)
        return
    if case.get("kind") == "interleaved":
        from .purity import interleaved_pure
        interleaved_pure(ctx, "der", [D], _interleaved_jobs(), 1, max_schedules=3000)
    elif case.get("kind") == "big-body":
        run_unit(ctx, "mutations")
    elif "reader" in case:
        judge(ctx, case["reader"], bytes.fromhex(case["data"]), as_view=case.get("view", False))
    else:
        roundtrip_case(ctx, case)
