"""C05 - ECDH: both parties derive the same standard secret or get an error."""
import hashlib

from hypothesis import strategies as st
from hypothesis.stateful import RuleBasedStateMachine, rule, precondition

from .. import gen
from ..ref import ec as rec
from ..ref import der as rder
from ..ref import points as rpoints
from ..runner import run_hypothesis, run_machine, exc_sig

from ecdsa import ECDH, SigningKey, VerifyingKey, MalformedPointError
from ecdsa.ecdh import NoKeyError, NoCurveError, InvalidCurveError, InvalidSharedSecretError
from ecdsa.der import UnexpectedDER
from ecdsa.curves import UnknownCurveError
from ecdsa.ellipticcurve import PointJacobi

RULE = (
    "(a) direct exchanges: (curve, dA, dB) with each side's keys loaded through every route (object, raw "
    "bytes, DER, PEM, PKCS#8 / raw, uncompressed, compressed, hybrid bytes, DER, PEM); toy curves with a 2-byte "
    "field: ALL (dA,dB) so that secrets with leading zero bytes are frequent; 17 named curves with boundary "
    "scalars. Oracle: both parties return x(dA*dB*G) from the reference, bytes are that integer big-endian in "
    "ceil(bitlen(p)/8) bytes. (b) hypothesis state machine on one ECDH object: set_curve, generate, load private "
    "key (object/bytes/DER/PEM, valid and invalid), load received public key (object/4 byte encodings/DER/PEM, "
    "valid, other-curve, off-curve, alias, wrong-length, wrong-parity, order-4 / order-4n points on cofactor-4 "
    "curves), compute secret / secret bytes; a model (agreed curve, local (d,curve), remote (Q,curve)) predicts "
    "NoKeyError / NoCurveError / InvalidCurveError / loader rejection (state unchanged) / the reference secret. "
    "(c) unvalidated remote key of small order with d a multiple of that order: InvalidSharedSecretError. "
    "Non-trivial = history with a curve change after a load, a rejected key followed by a secret computation, a "
    "secret with a leading zero byte, boundary scalars, non-object load routes; distinct by history / tuple."
)
ASSUMPTIONS = [
    "load_received_public_key_bytes is only called with a curve set (documented: 'uses current curve')",
    "small-subgroup remote keys used in the machine have n*P of order 4 (the y=0 class is the recorded C08 finding)",
    "unvalidated small-order keys are only used where the true product is the identity",
]

POOL = ["t257", "t257-twin", "t251a", "SECP112r1", "SECP112r2", "NIST192p"]


class Mismatch(Exception):
    def __init__(self, sig, detail=""):
        self.sig = sig
        self.detail = detail


def _named(cname):
    return cname in rder.CURVE_OIDS


def _pt_bytes(d, Q, enc):
    xb, yb = Q[0].to_bytes(d.plen, "big"), Q[1].to_bytes(d.plen, "big")
    return {"raw": xb + yb, "uncompressed": b"\x04" + xb + yb, "compressed": bytes((2 + (Q[1] & 1),)) + xb,
            "hybrid": bytes((6 + (Q[1] & 1),)) + xb + yb}[enc]


class World:
    """the real ECDH object next to its model"""

    def __init__(self, init_curve=None):
        self.real = ECDH(curve=gen.dom(init_curve).lib if init_curve else None)
        self.curve = init_curve
        self.local = None
        self.remote = None
        self.flags = set()

    def _expect(self, fn, want_exc, what):
        try:
            res = fn()
        except want_exc if want_exc else () as e:
            return ("exc", e)
        except Exception as e:
            raise Mismatch("%s/unexpected-%s" % (what, exc_sig(e)),
                           "%r (model expected %s)" % (e, want_exc.__name__ if want_exc else "success"))
        if want_exc:
            raise Mismatch("%s/no-%s" % (what, want_exc.__name__), "call returned %r" % (res,))
        return ("ok", res)

    # ------------------------------------------------------------------ steps
    def apply(self, step):
        op = step["op"]
        getattr(self, "op_" + op)(step)
        self.invariant()

    def invariant(self):
        rc = self.real.curve
        if (rc is None) != (self.curve is None) or (rc is not None and rc is not gen.dom(self.curve).lib):
            raise Mismatch("state/curve-differs", "real %r model %r" % (rc, self.curve))
        rl = self.real.private_key
        if (rl is None) != (self.local is None) or (rl is not None and (
                rl.privkey.secret_multiplier != self.local[0] or rl.curve is not gen.dom(self.local[1]).lib)):
            raise Mismatch("state/private-key-differs", "")
        rr = self.real.public_key
        if (rr is None) != (self.remote is None):
            raise Mismatch("state/public-key-differs", "a rejected key was stored or an accepted one lost")
        if rr is not None:
            pt = (int(rr.pubkey.point.x()), int(rr.pubkey.point.y()))
            if pt != self.remote[0] or rr.curve is not gen.dom(self.remote[1]).lib:
                raise Mismatch("state/public-key-differs", "real %r model %r" % (pt, self.remote))

    def op_set_curve(self, step):
        self.real.set_curve(gen.dom(step["curve"]).lib)
        if self.local or self.remote:
            self.flags.add("curve-change-after-load")
        self.curve = step["curve"]

    def op_generate(self, step):
        if self.curve is None:
            self._expect(self.real.generate_private_key, NoCurveError, "generate")
            return
        kind, vk = self._expect(self.real.generate_private_key, None, "generate")
        d = gen.dom(self.curve)
        dd = self.real.private_key.privkey.secret_multiplier
        if not 1 <= dd < d.n:
            raise Mismatch("generate/d-out-of-range", repr(dd))
        self.local = (dd, self.curve)
        self._check_vk(vk, d, dd, "generate")

    def _check_vk(self, vk, d, dd, what):
        Q = rec.mul(d.c, dd, d.G)
        if (int(vk.pubkey.point.x()), int(vk.pubkey.point.y())) != Q:
            raise Mismatch("%s/returned-public-key-wrong" % what, "")

    def op_load_sk(self, step):
        how, cname, dd = step["how"], step["curve"], step["d"]
        d = gen.dom(cname)
        nl = (d.n.bit_length() + 7) // 8
        if how == "obj":
            sk = SigningKey.from_secret_exponent(dd, curve=d.lib)
            call = lambda: self.real.load_private_key(sk)
            key_curve, key_d = cname, dd
        elif how == "bytes":
            data = dd.to_bytes(nl, "big")
            if self.curve is None:
                self._expect(lambda: self.real.load_private_key_bytes(data), NoCurveError, "load_sk_bytes")
                return
            cur = gen.dom(self.curve)
            curl = (cur.n.bit_length() + 7) // 8
            v = int.from_bytes(data, "big")
            if len(data) != curl or not 1 <= v < cur.n:
                self._expect(lambda: self.real.load_private_key_bytes(data), MalformedPointError, "load_sk_bytes")
                self.flags.add("rejected-private")
                return
            call = lambda: self.real.load_private_key_bytes(bytearray(data))
            key_curve, key_d = self.curve, v
        else:
            oid = rder.CURVE_OIDS[cname]
            pub = _pt_bytes(d, rec.mul(d.c, dd, d.G), "uncompressed")
            ecpriv = rder.enc_ecprivkey(dd.to_bytes(nl, "big"), oid, pub)
            der = ecpriv if "pkcs8" not in how else rder.enc_pkcs8(ecpriv, oid, version=0)
            if how.startswith("der"):
                call = lambda: self.real.load_private_key_der(der)
            else:
                label = "PRIVATE KEY" if "pkcs8" in how else "EC PRIVATE KEY"
                text = rder.pem(label, der)
                call = lambda: self.real.load_private_key_pem(text.decode() if dd % 2 else text)
            key_curve, key_d = cname, dd
        if self.curve is not None and self.curve != key_curve:
            self._expect(call, InvalidCurveError, "load_sk_" + how)
            self.flags.add("rejected-private")
            return
        kind, vk = self._expect(call, None, "load_sk_" + how)
        if self.curve is None:
            self.curve = key_curve
        self.local = (key_d, key_curve)
        self._check_vk(vk, gen.dom(key_curve), key_d, "load_sk_" + how)
        if how != "obj":
            self.flags.add("non-object-route")

    def op_load_sk_bad(self, step):
        how, kind, cname = step["how"], step["kind"], step["curve"]
        d = gen.dom(cname)
        nl = (d.n.bit_length() + 7) // 8
        val = {"zero": 0, "n": d.n, "max": 256 ** nl - 1}.get(kind, 5)
        if how == "bytes":
            if self.curve is None:
                return
            cur = gen.dom(self.curve)
            curl = (cur.n.bit_length() + 7) // 8
            data = {"zero": bytes(curl), "n": cur.n.to_bytes(curl, "big") if cur.n < 256 ** curl else b"\xff" * curl,
                    "max": b"\xff" * curl, "short": b"\x01" * (curl - 1), "long": b"\x01" * (curl + 1),
                    "empty": b""}[kind]
            v = int.from_bytes(data, "big") if data else 0
            if len(data) == curl and 1 <= v < cur.n:
                return
            self._expect(lambda: self.real.load_private_key_bytes(data), MalformedPointError, "load_sk_bad_bytes")
        else:
            if not _named(cname):
                return
            oid = rder.CURVE_OIDS[cname]
            if kind == "garbage":
                der = b"\x30\x03\x02\x01\x01"
                exc = UnexpectedDER
            elif kind == "unknown-curve":
                der = rder.enc_ecprivkey((5).to_bytes(nl, "big"), (1, 3, 132, 0, 99), None)
                exc = UnknownCurveError
            else:
                if val >= 256 ** nl:
                    return
                der = rder.enc_ecprivkey(val.to_bytes(nl, "big"), oid, None)
                if 1 <= val < d.n:
                    return
                exc = MalformedPointError
            self._expect(lambda: self.real.load_private_key_der(der), exc, "load_sk_bad_der")
        self.flags.add("rejected-private")

    def op_load_vk(self, step):
        how, cname, dd = step["how"], step["curve"], step["d"]
        d = gen.dom(cname)
        Q = rec.mul(d.c, dd, d.G)
        if how == "obj":
            vk = VerifyingKey.from_string(_pt_bytes(d, Q, "raw"), curve=d.lib)
            if dd % 3 == 1:
                vk.precompute(lazy=bool(dd % 2))        # the key was prepared for bulk verification before
            elif dd % 3 == 2:
                try:
                    vk.verify(b"\x01" * (2 * ((d.n.bit_length() + 7) // 8)), b"x")
                except Exception:
                    pass                                 # (an invalid signature; the key object has been used)
            call = lambda: self.real.load_received_public_key(vk)
            key_curve, key_Q = cname, Q
        elif how in ("raw", "uncompressed", "compressed", "hybrid"):
            if self.curve is None:
                return
            data = _pt_bytes(d, Q, how)
            cur = gen.dom(self.curve)
            w = rpoints.decode(cur.c, cur.n, data, allow_raw=True)
            if w[0] != "ok":
                if w[1] == "subgroup":
                    return      # cross-curve coincidence inside the known y=0 class is not generated
                self._expect(lambda: self.real.load_received_public_key_bytes(data), MalformedPointError,
                             "load_vk_bytes")
                self.flags.add("rejected-remote")
                return
            call = lambda: self.real.load_received_public_key_bytes(data)
            key_curve, key_Q = self.curve, w[1]
            self.flags.add("non-object-route")
        else:
            enc = ("uncompressed", "compressed", "hybrid")[dd % 3]
            der = rder.enc_spki(rder.CURVE_OIDS[cname], _pt_bytes(d, Q, enc))
            if how == "der":
                call = lambda: self.real.load_received_public_key_der(der)
            else:
                text = rder.pem("PUBLIC KEY", der)
                call = lambda: self.real.load_received_public_key_pem(text.decode() if dd % 2 else text)
            key_curve, key_Q = cname, Q
            self.flags.add("non-object-route")
        if self.curve is not None and self.curve != key_curve:
            self._expect(call, InvalidCurveError, "load_vk_" + how)
            self.flags.add("rejected-remote")
            return
        self._expect(call, None, "load_vk_" + how)
        if self.curve is None:
            self.curve = key_curve
        self.remote = (key_Q, key_curve)

    def op_load_vk_bad(self, step):
        how, kind, cname, dd = step["how"], step["kind"], step["curve"], step["d"]
        d = gen.dom(cname)
        p, l = d.p, d.plen
        Q = rec.mul(d.c, dd, d.G)
        x, y = Q
        top = 256 ** l
        if kind == "off-curve":
            pt = (x, (y + 1) % p)
            data = b"\x04" + pt[0].to_bytes(l, "big") + pt[1].to_bytes(l, "big")
        elif kind == "alias":
            if x + p >= top:
                return
            data = b"\x04" + (x + p).to_bytes(l, "big") + y.to_bytes(l, "big")
        elif kind == "wrong-len":
            data = _pt_bytes(d, Q, "uncompressed")[:-1]
        elif kind == "hybrid-parity":
            data = bytes((7 - (y & 1),)) + x.to_bytes(l, "big") + y.to_bytes(l, "big")
        elif kind == "bad-prefix":
            data = b"\x05" + x.to_bytes(l, "big") + y.to_bytes(l, "big")
        elif kind == "small-subgroup":
            T = _order4_point(cname)
            if T is None:
                return
            P = rec.add(d.c, T, Q) if dd % 2 else T
            data = _pt_bytes(d, P, ("uncompressed", "compressed", "hybrid", "raw")[(dd // 2) % 4])
            if how != "bytes" and len(data) == 2 * l:
                data = _pt_bytes(d, P, "compressed")
        else:
            raise ValueError(kind)
        if how == "bytes":
            if self.curve is None:
                return
            cur = gen.dom(self.curve)
            w = rpoints.decode(cur.c, cur.n, data, allow_raw=True)
            if w[0] == "ok":
                return
            if w[1] == "subgroup":
                T = rpoints.decode  # noqa
                # only order-4 class is generated for the agreed curve itself
                if self.curve != cname or kind != "small-subgroup":
                    return
            self._expect(lambda: self.real.load_received_public_key_bytes(data), MalformedPointError,
                         "load_vk_bad_bytes/" + kind)
        else:
            if not _named(cname):
                return
            der = rder.enc_spki(rder.CURVE_OIDS[cname], data)
            w = rpoints.decode(d.c, d.n, data, allow_raw=False)
            if w[0] == "ok":
                return
            fn = (lambda: self.real.load_received_public_key_der(der)) if how == "der" else \
                 (lambda: self.real.load_received_public_key_pem(rder.pem("PUBLIC KEY", der)))
            try:
                fn()
            except (MalformedPointError, UnexpectedDER):
                pass
            except Exception as e:
                raise Mismatch("load_vk_bad_%s/%s/unexpected-%s" % (how, kind, exc_sig(e)), repr(e))
            else:
                raise Mismatch("load_vk_bad_%s/%s/invalid-key-accepted" % (how, kind), data.hex())
        self.flags.add("rejected-remote")

    def op_secret(self, step):
        as_bytes = step.get("bytes", False)
        fn = self.real.generate_sharedsecret_bytes if as_bytes else self.real.generate_sharedsecret
        what = "secret_bytes" if as_bytes else "secret"
        if self.local is None or self.remote is None:
            self._expect(fn, NoKeyError, what)
            return
        if not (self.local[1] == self.curve == self.remote[1]):
            self._expect(fn, InvalidCurveError, what)
            return
        d = gen.dom(self.curve)
        S = rec.mul(d.c, self.local[0], self.remote[0])
        if S is None:
            self._expect(fn, InvalidSharedSecretError, what)
            return
        kind, got = self._expect(fn, None, what)
        want = S[0].to_bytes(d.plen, "big") if as_bytes else S[0]
        if got != want:
            lead = "leading-zero" if S[0] < 256 ** (d.plen - 1) else "plain"
            raise Mismatch("%s/wrong-value/%s" % (what, lead), "library %r reference %r" % (got, want))
        if S[0] < 256 ** (d.plen - 1):
            self.flags.add("leading-zero-secret")
        if "rejected-remote" in self.flags or "rejected-private" in self.flags:
            self.flags.add("secret-after-rejection")

    def op_get_public(self, step):
        if self.local is None:
            return
        kind, vk = self._expect(self.real.get_public_key, None, "get_public_key")
        self._check_vk(vk, gen.dom(self.local[1]), self.local[0], "get_public_key")


_o4 = {}


def _order4_point(cname):
    """a point T with n*T of order 4 (so that n*P != O and y(n*P) != 0)"""
    if cname in _o4:
        return _o4[cname]
    d = gen.dom(cname)
    T = None
    if d.h % 4 == 0:
        x = 1
        for _ in range(2000):
            x += 1
            pts = rec.lift_x(d.c, x)
            if not pts:
                continue
            U = rec.mul(d.c, d.n, pts[0])
            if U is not None and U[1] != 0:
                T = U
                break
    _o4[cname] = T
    return T


def run_history(history, init_curve=None):
    w = World(init_curve)
    for i, step in enumerate(history):
        w.apply(step)
    return w


def make_machine_factory(ctx, pool):
    def factory(sink):
        class ECDHMachine(RuleBasedStateMachine):
            def __init__(self):
                super().__init__()
                self.w = World()
                self.history = []
                self.dead = False

            def _do(self, step):
                if self.dead:
                    return
                self.history.append(step)
                ctx.ev()
                try:
                    self.w.apply(step)
                except Mismatch as m:
                    self.dead = True
                    sink(m.sig, {"kind": "history", "history": list(self.history)}, m.detail)

            @rule(c=st.sampled_from(pool))
            def set_curve(self, c):
                self._do({"op": "set_curve", "curve": c})

            @rule()
            def generate(self):
                self._do({"op": "generate"})

            @rule(c=st.sampled_from(pool), how=st.sampled_from(["obj", "bytes", "der", "pem", "der-pkcs8", "pem-pkcs8"]),
                  di=st.integers(0, 40))
            def load_sk(self, c, how, di):
                if how not in ("obj", "bytes") and not _named(c):
                    how = "bytes"
                bs = gen.boundary_scalars(gen.dom(c).n)
                self._do({"op": "load_sk", "how": how, "curve": c, "d": bs[di % len(bs)]})

            @rule(c=st.sampled_from(pool), how=st.sampled_from(["bytes", "der"]),
                  kind=st.sampled_from(["zero", "n", "max", "short", "long", "empty", "garbage", "unknown-curve"]))
            def load_sk_bad(self, c, how, kind):
                if how == "der" and kind in ("short", "long", "empty"):
                    kind = "zero"
                if how == "bytes" and kind in ("garbage", "unknown-curve"):
                    kind = "short"
                self._do({"op": "load_sk_bad", "how": how, "kind": kind, "curve": c})

            @rule(c=st.sampled_from(pool),
                  how=st.sampled_from(["obj", "raw", "uncompressed", "compressed", "hybrid", "der", "pem"]),
                  di=st.integers(0, 40))
            def load_vk(self, c, how, di):
                if how in ("der", "pem") and not _named(c):
                    how = "uncompressed"
                if how == "compressed" and gen.dom(c).plen == 1:
                    how = "hybrid"
                bs = gen.boundary_scalars(gen.dom(c).n)
                self._do({"op": "load_vk", "how": how, "curve": c, "d": bs[di % len(bs)]})

            @rule(c=st.sampled_from(pool), how=st.sampled_from(["bytes", "der", "pem"]),
                  kind=st.sampled_from(["off-curve", "alias", "wrong-len", "hybrid-parity", "bad-prefix", "small-subgroup"]),
                  di=st.integers(0, 40))
            def load_vk_bad(self, c, how, kind, di):
                bs = gen.boundary_scalars(gen.dom(c).n)
                self._do({"op": "load_vk_bad", "how": how, "kind": kind, "curve": c, "d": bs[di % len(bs)]})

            @rule(b=st.booleans())
            def secret(self, b):
                self._do({"op": "secret", "bytes": b})

            @rule()
            def get_public(self):
                self._do({"op": "get_public"})

            def teardown(self):
                fl = self.w.flags
                for f in fl:
                    ctx.event("history:" + f)
                if fl & {"curve-change-after-load", "secret-after-rejection", "leading-zero-secret", "non-object-route"}:
                    ctx.nontrivial(("hist", repr(self.history)))
                if len(ctx.samples) < 3 and len(self.history) > 4:
                    ctx.sample({"kind": "history", "history": self.history[:12]})

        return ECDHMachine
    return factory


# ---------------------------------------------------------------- direct exchanges
SK_ROUTES = ["obj", "bytes", "der", "pem", "der-pkcs8", "pem-pkcs8"]
VK_ROUTES = ["obj", "raw", "uncompressed", "compressed", "hybrid", "der", "pem"]


def check_exchange(ctx, case, enum=False):
    cname = case["curve"]
    d = gen.dom(cname)
    dA, dB = case["dA"], case["dB"]
    ctx.ev()
    hist_a = [{"op": "set_curve", "curve": cname},
              {"op": "load_sk", "how": case["skA"], "curve": cname, "d": dA},
              {"op": "load_vk", "how": case["vkA"], "curve": cname, "d": dB},
              {"op": "secret", "bytes": False}, {"op": "secret", "bytes": True}, {"op": "get_public"}]
    hist_b = [{"op": "load_vk", "how": "obj", "curve": cname, "d": dA},
              {"op": "load_sk", "how": case["skB"], "curve": cname, "d": dB},
              {"op": "secret", "bytes": True}]
    try:
        wa = run_history(hist_a)
        wb = run_history(hist_b)
        sa = wa.real.generate_sharedsecret_bytes()
        sb = wb.real.generate_sharedsecret_bytes()
        if sa != sb:
            raise Mismatch("exchange/parties-differ", "%s vs %s" % (sa.hex(), sb.hex()))
        # third spelling: everything through the constructor (with and without the curve argument)
        skB = SigningKey.from_secret_exponent(dB, curve=d.lib)
        vkA = VerifyingKey.from_string(_pt_bytes(d, rec.mul(d.c, dA, d.G), "raw"), curve=d.lib)
        for kwargs in ({"curve": d.lib, "private_key": skB, "public_key": vkA},
                       {"private_key": skB, "public_key": vkA}):
            sc = ECDH(**kwargs).generate_sharedsecret_bytes()
            if sc != sa:
                raise Mismatch("exchange/constructor-route-differs", "%s vs %s" % (sc.hex(), sa.hex()))
    except Mismatch as m:
        ctx.fail("exchange/" + m.sig, case, m.detail)
        return
    except Exception as e:
        ctx.fail("exchange/exception/%s" % exc_sig(e), case, repr(e))
        return
    lead = "leading-zero-secret" in wa.flags
    ctx.event("exchange:" + ("leading-zero" if lead else "plain"))
    if lead or case.get("boundary") or case["skA"] != "obj" or case["vkA"] != "obj":
        if enum:
            ctx.nontrivial_enum()
        else:
            ctx.nontrivial(("ex", tuple(sorted(case.items()))))


def check_infinity(ctx, cname, count):
    d = gen.dom(cname)
    T = _order4_point(cname)
    if T is None:
        return
    for o, P in ((4, T), (2, rec.dbl(d.c, T))):
        for j in range(count):
            dd = (o * (j + 1) * 37) % d.n
            if dd == 0 or rec.mul(d.c, dd, P) is not None:
                continue
            ctx.ev()
            case = {"kind": "infinity", "curve": cname, "order": o, "d": dd}
            try:
                vk = VerifyingKey.from_public_point(PointJacobi(d.lib.curve, P[0], P[1], 1), curve=d.lib,
                                                    validate_point=False)
                e = ECDH(curve=d.lib, private_key=SigningKey.from_secret_exponent(dd, curve=d.lib), public_key=vk)
                try:
                    r = e.generate_sharedsecret_bytes()
                    ctx.fail("infinity/value-returned", case, repr(r))
                except InvalidSharedSecretError:
                    pass
            except Exception as ex:
                ctx.fail("infinity/exception/%s" % exc_sig(ex), case, repr(ex))
            ctx.nontrivial(("inf", cname, o, dd))
    ctx.sample({"kind": "infinity", "curve": cname, "note": "unvalidated remote key of order 2 / 4, d multiple of the order"})


def units(tier, seed):
    q = tier == "quick"
    out = []
    for part in range(4 if q else 8):
        out.append(("toy-all-pairs", {"curve": "t257", "part": part, "nparts": 8 if q else 8}))
    if not q:
        for part in range(8):
            out.append(("toy-all-pairs", {"curve": "t1021a", "part": part, "nparts": 64}))
    names = sorted(gen.NAMED, key=lambda x: -gen.dom(x).p)
    for i in range(6):
        out.append(("named-exchange", {"names": names[i::6], "examples": 12 if q else 300}))
    for i in range(4):
        out.append(("machine", {"examples": 250 if q else 6000, "steps": 25, "label": "m%d" % i}))
    out.append(("infinity", {"count": 4 if q else 40}))
    return out


def run_unit(ctx, name, **kw):
    if name == "toy-all-pairs":
        d = gen.dom(kw["curve"])
        n = d.n
        i = 0
        for dA in range(1 + kw["part"], n, kw["nparts"]):
            for dB in range(1, n):
                i += 1
                skr = ("obj", "bytes")[i % 2]
                vkr = ("obj", "raw", "uncompressed", "compressed", "hybrid")[i % 5]
                check_exchange(ctx, {"curve": kw["curve"], "dA": dA, "dB": dB, "skA": skr, "vkA": vkr, "skB": "obj"}, enum=True)
        ctx.sample({"curve": kw["curve"], "dA": "every %d-th from %d" % (kw["nparts"], 1 + kw["part"]), "dB": "all"})
        ctx.exhausted("%s: listed dA x all dB" % kw["curve"])
    elif name == "named-exchange":
        def body(c, v):
            ci, ai, bi, u1, u2, skA, vkA, skB = v
            cname = kw["names"][ci % len(kw["names"])]
            n = gen.dom(cname).n
            bs = gen.boundary_scalars(n)
            case = {"curve": cname, "dA": bs[ai % len(bs)] if ai >= 0 else 1 + u1 % (n - 1),
                    "dB": bs[bi % len(bs)] if bi >= 0 else 1 + u2 % (n - 1), "skA": skA, "vkA": vkA, "skB": skB,
                    "boundary": ai >= 0 or bi >= 0}
            check_exchange(c, case)
            c.sample(case)
        strat = st.tuples(st.integers(0, 20), st.integers(-10, 50), st.integers(-10, 50), st.integers(0, 1 << 530),
                          st.integers(0, 1 << 530), st.sampled_from(SK_ROUTES), st.sampled_from(VK_ROUTES),
                          st.sampled_from(SK_ROUTES))
        run_hypothesis(ctx, "ex", strat, body, kw["examples"])
    elif name == "machine":
        run_machine(ctx, kw["label"], make_machine_factory(ctx, POOL), kw["examples"], kw["steps"])
    elif name == "infinity":
        for cname in ("SECP112r2", "tc_1021_1_11", "tc_251_6_3", "tc_241_1_15"):
            check_infinity(ctx, cname, kw["count"])
    else:
        raise ValueError(name)


def replay(ctx, case):
    k = case.get("kind")
    if k == "history":
        ctx.ev()
        try:
            run_history(case["history"])
        except Mismatch as m:
            ctx.fail(m.sig, case, m.detail)
    elif k == "infinity":
        check_infinity(ctx, case["curve"], 4)
    else:
        check_exchange(ctx, case)
