"""C09 - keys round-trip through every serialisation and emit exact DER."""
import hashlib

from hypothesis import strategies as st

from .. import gen
from ..ref import ec as rec
from ..ref import der as rder
from ..runner import run_hypothesis, exc_sig
from . import sigutil as SU

from ecdsa import SigningKey, VerifyingKey
from ecdsa.util import sigencode_der, sigdecode_der

RULE = (
    "Cases are (curve, d): all 17 named curves with boundary-biased d (1, n-1, 2^j, values with 1-3 leading "
    "zero bytes) and keys whose x or y coordinate has a leading zero byte (found by stepping k with the "
    "reference), toy curves for the raw formats. For each key every serialisation is produced: raw / "
    "uncompressed / compressed / hybrid strings, SubjectPublicKeyInfo DER and PEM in 3 point encodings, "
    "ECPrivateKey (ssleay) and PKCS#8 DER and PEM in 3 point encodings. Oracle: (1) from_X(to_X(k)) == k, same "
    "curve, same to_string, reloaded signing key gives byte-identical deterministic signatures which the "
    "reloaded verifying key accepts; (2) output is byte-identical to an independent canonical DER/PEM encoder "
    "(typed-in OID table, fixed-length big-endian fields) and strictly parses back to (curve OID, d, point); "
    "(3) keys written by the independent encoder (PKCS#8 v0/v1 with/without public key, ecDH/ecMQV algorithm "
    "OIDs, ssleay with/without [1], short private octet string) load to the same (curve, d, Q). Non-trivial = "
    "leading-zero scalar or coordinate, non-default format/encoding, reference-encoded input; distinct by "
    "(curve, d, format)."
)
ASSUMPTIONS = [
    "pbt/ref/der.py encodes canonical DER; the OID table there is typed in from SEC 2 / RFC 5480 / RFC 5639",
    "PKCS#8 version number emitted by the library (0 or 1) is taken from its output, everything else is compared byte for byte",
]

POINT_ENCS = ("uncompressed", "compressed", "hybrid")


def ref_point_bytes(d, Q, enc):
    xb, yb = Q[0].to_bytes(d.plen, "big"), Q[1].to_bytes(d.plen, "big")
    if enc == "raw":
        return xb + yb
    if enc == "uncompressed":
        return b"\x04" + xb + yb
    if enc == "compressed":
        return bytes((2 + (Q[1] & 1),)) + xb
    return bytes((6 + (Q[1] & 1),)) + xb + yb


PEM_LAYOUTS = ("lead-blank", "trail-blank", "trail-2blank", "crlf", "w76", "oneline", "nofinal", "w4")


def pem_layout(label, der, layout):
    """the same PEM object as other writers lay it out: blank lines around the armour, CRLF, other line widths"""
    import base64
    b64 = base64.b64encode(der)
    L = label.encode()
    width = {"w76": 76, "oneline": 10 ** 6, "w4": 4}.get(layout, 64)
    nl = b"\r\n" if layout == "crlf" else b"\n"
    lines = [b"-----BEGIN " + L + b"-----"] + [b64[i:i + width] for i in range(0, len(b64), width)] + [b"-----END " + L + b"-----"]
    txt = nl.join(lines) + (b"" if layout == "nofinal" else nl)
    if layout == "lead-blank":
        txt = b"\n" + txt
    if layout == "trail-blank":
        txt += b"\n"
    if layout == "trail-2blank":
        txt += b"\n\n"
    return txt


def check_key(ctx, case):
    d = gen.dom(case["curve"])
    dd = case["d"]
    n = d.n
    nl = SU.olen(n)
    Q = rec.mul(d.c, dd, d.G)
    named = not d.toy
    lead = dd < 256 ** (nl - 1) or Q[0] < 256 ** (d.plen - 1) or Q[1] < 256 ** (d.plen - 1)
    cls = "leading-zero" if lead else "plain"

    def fail(sig, detail=""):
        ctx.fail("%s/%s" % (sig, cls), case, detail)

    try:
        sk = SigningKey.from_secret_exponent(dd, curve=d.lib, hashfunc=hashlib.sha256)
        vk = sk.get_verifying_key()
    except Exception as e:
        fail("keygen/exception/%s" % exc_sig(e), repr(e))
        return
    msg = b"c09 message"
    try:
        sig0 = sk.sign_deterministic(msg, sigencode=sigencode_der)
    except Exception as e:
        fail("sign/exception/%s" % exc_sig(e), repr(e))
        return

    def same_vk(vk2, what):
        ctx.ev()
        try:
            if not (vk2 == vk) or (vk2 != vk) or vk2.curve != vk.curve or vk2.to_string() != vk.to_string():
                fail("vk-roundtrip-differs/%s" % what)
            elif vk2.verify(sig0, msg, hashfunc=hashlib.sha256, sigdecode=sigdecode_der) is not True:
                fail("vk-roundtrip-does-not-verify/%s" % what)
            else:
                # the reloaded key must be as usable as the original: table precomputation, then verify
                vk2.precompute(lazy=(dd % 2 == 0))
                if vk2.verify(sig0, msg, hashfunc=hashlib.sha256, sigdecode=sigdecode_der) is not True \
                        or vk2.to_string() != vk.to_string():
                    fail("vk-roundtrip-breaks-after-precompute/%s" % what)
        except Exception as e:
            fail("vk-roundtrip-exception/%s/%s" % (what, exc_sig(e)), repr(e))

    def same_sk(sk2, what):
        ctx.ev()
        try:
            if not (sk2 == sk) or (sk2 != sk) or sk2.curve != sk.curve or sk2.to_string() != sk.to_string() \
                    or sk2.get_verifying_key().to_string() != vk.to_string():
                fail("sk-roundtrip-differs/%s" % what)
            elif sk2.sign_deterministic(msg, hashfunc=hashlib.sha256, sigencode=sigencode_der) != sig0:
                fail("sk-roundtrip-signature-differs/%s" % what)
        except Exception as e:
            fail("sk-roundtrip-exception/%s/%s" % (what, exc_sig(e)), repr(e))

    # ---- verifying key, string encodings
    for enc in ("raw",) + POINT_ENCS:
        ctx.ev()
        try:
            out = vk.to_string(enc)
            want = ref_point_bytes(d, Q, enc)
            if out != want:
                fail("vk-to_string-wrong/%s" % enc, "%s vs %s" % (out.hex(), want.hex()))
            if enc == "compressed" and d.plen == 1:
                continue
            same_vk(VerifyingKey.from_string(out, curve=d.lib, hashfunc=hashlib.sha256), "string-" + enc)
            same_vk(VerifyingKey.from_string(bytearray(want), curve=d.lib, hashfunc=hashlib.sha256), "refstring-" + enc)
        except Exception as e:
            fail("vk-string/exception/%s/%s" % (enc, exc_sig(e)), repr(e))
    # ---- signing key, raw
    ctx.ev()
    try:
        out = sk.to_string()
        if out != dd.to_bytes(nl, "big"):
            fail("sk-to_string-wrong", out.hex())
        same_sk(SigningKey.from_string(out, curve=d.lib, hashfunc=hashlib.sha256), "string")
    except Exception as e:
        fail("sk-string/exception/%s" % exc_sig(e), repr(e))
    if named:
        oid = rder.CURVE_OIDS[case["curve"]]
        dbytes = dd.to_bytes(nl, "big")
        for enc in POINT_ENCS:
            pb = ref_point_bytes(d, Q, enc)
            # ---- SubjectPublicKeyInfo
            ctx.ev()
            try:
                der = vk.to_der(enc)
                want = rder.enc_spki(oid, pb)
                if der != want:
                    fail("vk-to_der-not-canonical/%s" % enc, "%s vs %s" % (der.hex(), want.hex()))
                alg, coid, pt = rder.dec_spki(der)
                if (alg, coid, pt) != (rder.OID_EC_PUBLIC_KEY, oid, pb):
                    fail("vk-to_der-fields-wrong/%s" % enc)
                same_vk(VerifyingKey.from_der(der, hashfunc=hashlib.sha256), "der-" + enc)
                same_vk(VerifyingKey.from_der(want, hashfunc=hashlib.sha256), "refder-" + enc)
                pem = vk.to_pem(enc)
                if pem != rder.pem("PUBLIC KEY", want):
                    fail("vk-to_pem-wrong/%s" % enc, repr(pem[:80]))
                if rder.unpem(pem, "PUBLIC KEY") != want:
                    fail("vk-to_pem-body-wrong/%s" % enc)
                same_vk(VerifyingKey.from_pem(pem, hashfunc=hashlib.sha256), "pem-" + enc)
                same_vk(VerifyingKey.from_pem(pem.decode(), hashfunc=hashlib.sha256), "pemstr-" + enc)
                for j in range(2):
                    lay = PEM_LAYOUTS[(dd + 3 * j + len(enc)) % len(PEM_LAYOUTS)]
                    txt = pem_layout("PUBLIC KEY", want, lay)
                    same_vk(VerifyingKey.from_pem(txt if j else txt.decode(), hashfunc=hashlib.sha256), "pem-layout-%s-%s" % (lay, enc))
            except rder.DERError as e:
                fail("vk-to_der-not-strict-der/%s" % enc, str(e))
            except Exception as e:
                fail("vk-der/exception/%s/%s" % (enc, exc_sig(e)), repr(e))
            # ---- ECPrivateKey / PKCS#8
            for fmt in ("ssleay", "pkcs8"):
                ctx.ev()
                try:
                    der = sk.to_der(enc, format=fmt)
                    ecpriv = rder.enc_ecprivkey(dbytes, oid, pb)
                    if fmt == "ssleay":
                        want = ecpriv
                        got_d, got_oid, got_pub = rder.dec_ecprivkey(der)
                    else:
                        ver, alg, coid, inner = rder.dec_pkcs8(der)
                        if ver not in (0, 1) or alg != rder.OID_EC_PUBLIC_KEY or coid != oid:
                            fail("sk-to_der-pkcs8-header-wrong/%s" % enc, repr((ver, alg, coid)))
                        want = rder.enc_pkcs8(ecpriv, oid, version=ver)
                        got_d, got_oid, got_pub = rder.dec_ecprivkey(inner)
                    if der != want:
                        fail("sk-to_der-not-canonical/%s/%s" % (fmt, enc), "%s vs %s" % (der.hex(), want.hex()))
                    if (got_d, got_oid, got_pub) != (dbytes, oid, pb):
                        fail("sk-to_der-fields-wrong/%s/%s" % (fmt, enc))
                    same_sk(SigningKey.from_der(der, hashfunc=hashlib.sha256), "der-%s-%s" % (fmt, enc))
                    label = "EC PRIVATE KEY" if fmt == "ssleay" else "PRIVATE KEY"
                    pem = sk.to_pem(enc, format=fmt)
                    if pem != rder.pem(label, want):
                        fail("sk-to_pem-wrong/%s/%s" % (fmt, enc), repr(pem[:80]))
                    same_sk(SigningKey.from_pem(pem, hashfunc=hashlib.sha256), "pem-%s-%s" % (fmt, enc))
                    same_sk(SigningKey.from_pem(pem.decode(), hashfunc=hashlib.sha256), "pemstr-%s-%s" % (fmt, enc))
                except rder.DERError as e:
                    fail("sk-to_der-not-strict-der/%s/%s" % (fmt, enc), str(e))
                except Exception as e:
                    fail("sk-der/exception/%s/%s/%s" % (fmt, enc, exc_sig(e)), repr(e))
        # ---- (3) keys written by the independent encoder
        pb = ref_point_bytes(d, Q, "uncompressed")
        variants = {
            "ssleay-full": rder.enc_ecprivkey(dbytes, oid, pb),
            "ssleay-nopub": rder.enc_ecprivkey(dbytes, oid, None),
            "pkcs8-v0": rder.enc_pkcs8(rder.enc_ecprivkey(dbytes, oid, pb), oid, version=0),
            "pkcs8-v0-bare-inner": rder.enc_pkcs8(rder.enc_ecprivkey(dbytes, None, None), oid, version=0),
            "pkcs8-v0-inner-nopub": rder.enc_pkcs8(rder.enc_ecprivkey(dbytes, oid, None), oid, version=0),
            "pkcs8-v1-pub": rder.enc_pkcs8(rder.enc_ecprivkey(dbytes, None, None), oid, version=1, pub_point=pb),
            "pkcs8-v1": rder.enc_pkcs8(rder.enc_ecprivkey(dbytes, oid, pb), oid, version=1),
            "pkcs8-ecdh": rder.enc_pkcs8(rder.enc_ecprivkey(dbytes, oid, pb), oid, version=0, alg_oid=rder.OID_ECDH),
            "pkcs8-ecmqv": rder.enc_pkcs8(rder.enc_ecprivkey(dbytes, oid, pb), oid, version=0, alg_oid=rder.OID_ECMQV),
        }
        short = dbytes.lstrip(b"\x00")
        if short != dbytes and short:
            variants["ssleay-short-octets"] = rder.enc_ecprivkey(short, oid, pb)
            variants["pkcs8-short-octets"] = rder.enc_pkcs8(rder.enc_ecprivkey(short, oid, pb), oid, version=0)
            variants["pkcs8-short-octets-bare"] = rder.enc_pkcs8(rder.enc_ecprivkey(short, None, None), oid, version=0)
        # OpenSSL writes an EC PARAMETERS block in front of the key
        params = rder.pem("EC PARAMETERS", rder.enc_oid(oid))
        try:
            same_sk(SigningKey.from_pem(params + rder.pem("EC PRIVATE KEY", variants["ssleay-full"]),
                                        hashfunc=hashlib.sha256), "refpem-with-ec-parameters")
            same_sk(SigningKey.from_pem((params + rder.pem("EC PRIVATE KEY", variants["ssleay-full"])).decode(),
                                        hashfunc=hashlib.sha256), "refpemstr-with-ec-parameters")
        except Exception as e:
            fail("sk-ref-encoded/exception/ec-parameters/%s" % exc_sig(e), repr(e))
        for vn, der in variants.items():
            try:
                same_sk(SigningKey.from_der(der, hashfunc=hashlib.sha256), "ref-" + vn)
                label = "EC PRIVATE KEY" if vn.startswith("ssleay") else "PRIVATE KEY"
                same_sk(SigningKey.from_pem(rder.pem(label, der), hashfunc=hashlib.sha256), "refpem-" + vn)
                lay = PEM_LAYOUTS[(dd + len(vn)) % len(PEM_LAYOUTS)]
                txt = pem_layout(label, der, lay)
                same_sk(SigningKey.from_pem(txt if dd % 2 else txt.decode(), hashfunc=hashlib.sha256), "refpem-layout-%s-%s" % (lay, vn))
            except Exception as e:
                fail("sk-ref-encoded/exception/%s/%s" % (vn, exc_sig(e)), repr(e))
    ctx.event("key:" + cls)
    ctx.event("curve-kind:" + ("named" if named else "toy"))
    ctx.nontrivial(("c09", case["curve"], dd))


def leading_zero_keys(d, count, start):
    """scalars k >= start whose public point has a leading zero byte in x or y"""
    out = []
    P = rec.mul(d.c, start, d.G)
    k = start
    lim = 256 ** (d.plen - 1)
    steps = 0
    while len(out) < count and steps < 3000:
        if P is not None and (P[0] < lim or P[1] < lim):
            out.append(k)
        P = rec.add(d.c, P, d.G)
        k += 1
        steps += 1
    return [x for x in out if 1 <= x < d.n]


def check_all_registered(ctx):
    """every curve object in the public registry ecdsa.curves.curves (also one this harness has no table
    entry for) round-trips its keys through DER and PEM onto the same curve object"""
    import ecdsa.curves as CV
    for cv in list(CV.curves):
        case = {"kind": "registered-curve", "name": cv.name}
        n = int(cv.order)
        for dd in (1, 2, n // 3 + 1, n - 1):
            ctx.ev()
            try:
                sk = SigningKey.from_secret_exponent(dd, curve=cv, hashfunc=hashlib.sha256)
                vk = sk.get_verifying_key()
                outs = [("vk-der", VerifyingKey.from_der(vk.to_der()), vk), ("vk-pem", VerifyingKey.from_pem(vk.to_pem()), vk),
                        ("vk-der-compressed", VerifyingKey.from_der(vk.to_der("compressed")), vk),
                        ("sk-der", SigningKey.from_der(sk.to_der()), sk), ("sk-pem", SigningKey.from_pem(sk.to_pem()), sk),
                        ("sk-pkcs8", SigningKey.from_der(sk.to_der(format="pkcs8")), sk),
                        ("sk-pkcs8-pem", SigningKey.from_pem(sk.to_pem(format="pkcs8")), sk)]
            except Exception as e:
                ctx.fail("registered-curve/exception/%s" % exc_sig(e), dict(case, d=dd), repr(e))
                continue
            for what, back, orig in outs:
                if back.curve is not cv or back.curve.name != cv.name:
                    ctx.fail("registered-curve/other-curve-after-round-trip/%s" % what, dict(case, d=dd),
                             "key on %s came back on %s" % (cv.name, back.curve.name))
                elif not (back == orig) or back.to_string() != orig.to_string():
                    ctx.fail("registered-curve/unequal-after-round-trip/%s" % what, dict(case, d=dd), "")
        if cv.name not in gen.NAMED:
            ctx.event("registered-curve:not-in-harness-table")
        ctx.nontrivial(("registered", cv.name))
    ctx.sample({"kind": "registered-curve", "count": len(CV.curves), "names": [c.name for c in CV.curves]})


def check_registry(ctx):
    """the curve registry ecdsa.curves.curves is a public list: a curve appended to it must be found by the
    DER/PEM loaders from then on and a removed one must not, whatever was looked up before"""
    import ecdsa.curves as CV
    from ecdsa.curves import UnknownCurveError
    d = gen.dom("t251a")
    custom = gen.make_lib_curve("custom251", d.c, d.G, d.n, 1, (1, 3, 9999, 77))
    case = {"kind": "registry"}
    sk = SigningKey.from_secret_exponent(5, curve=custom, hashfunc=hashlib.sha256)
    named_sk = SigningKey.from_secret_exponent(5, curve=CV.NIST192p)
    saved = list(CV.curves)
    try:
        ctx.ev()
        # 1. lookups happen first (this is what a cache would remember)
        VerifyingKey.from_der(named_sk.get_verifying_key().to_der())
        SigningKey.from_der(named_sk.to_der())
        try:
            VerifyingKey.from_der(sk.get_verifying_key().to_der())
            ctx.fail("registry/unregistered-curve-accepted", case, "")
        except UnknownCurveError:
            pass
        # 2. register, then every DER / PEM route must work
        CV.curves.append(custom)
        for what, f in (("vk-der", lambda: VerifyingKey.from_der(sk.get_verifying_key().to_der()).to_string()
                                    == sk.get_verifying_key().to_string()),
                        ("vk-pem", lambda: VerifyingKey.from_pem(sk.get_verifying_key().to_pem()).to_string()
                                    == sk.get_verifying_key().to_string()),
                        ("sk-der", lambda: SigningKey.from_der(sk.to_der()).to_string() == sk.to_string()),
                        ("sk-pkcs8", lambda: SigningKey.from_der(sk.to_der(format="pkcs8")).to_string() == sk.to_string()),
                        ("sk-pem", lambda: SigningKey.from_pem(sk.to_pem()).to_string() == sk.to_string())):
            ctx.ev()
            try:
                if not f():
                    ctx.fail("registry/appended-curve-roundtrip-differs/%s" % what, case, "")
            except Exception as e:
                ctx.fail("registry/appended-curve-not-found/%s/%s" % (what, type(e).__name__), case, repr(e))
        # 3. unregister: must be unknown again; and a removed named curve must be unknown too
        CV.curves.remove(custom)
        CV.curves.remove(CV.SECP112r2)
        r2 = SigningKey.from_secret_exponent(5, curve=CV.SECP112r2)
        for what, blob, loader in (("custom", sk.get_verifying_key().to_der(), VerifyingKey.from_der),
                                   ("secp112r2-vk", r2.get_verifying_key().to_der(), VerifyingKey.from_der),
                                   ("secp112r2-sk", r2.to_der(), SigningKey.from_der)):
            ctx.ev()
            try:
                loader(blob)
                ctx.fail("registry/removed-curve-still-accepted/%s" % what, case, "")
            except UnknownCurveError:
                pass
            except Exception as e:
                ctx.fail("registry/removed-curve-wrong-exception/%s/%s" % (what, type(e).__name__), case, repr(e))
    finally:
        CV.curves[:] = saved
    ctx.nontrivial(("registry",))
    ctx.sample({"kind": "registry", "note": "lookup, append custom curve, round trips, remove, lookups must fail again"})


def units(tier, seed):
    q = tier == "quick"
    out = [("registry", {}), ("registered", {})]
    names = sorted(gen.NAMED, key=lambda x: -gen.dom(x).p)
    for nm in names:
        out.append(("named", {"curve": nm, "boundary": 6 if q else 40, "lz": 1 if q else 6, "random": 2 if q else 60}))
    out.append(("toys", {"per": 40 if q else 400}))
    out.append(("faults", {"jobset": 'keys', "arg": 'NIST192p', "examples": 40 if tier == "quick" else 1500, "triples": 400 if tier == "quick" else 20000}))
    out.append(("faults", {"jobset": 'keys', "arg": 'NIST224p', "examples": 40 if tier == "quick" else 1500, "triples": 400 if tier == "quick" else 20000}))
    out.append(("faults", {"jobset": 'keys', "arg": 'SECP160r1', "examples": 40 if tier == "quick" else 1500, "triples": 400 if tier == "quick" else 20000}))
    out.append(("faults", {"jobset": 'keys', "arg": 'SECP256k1', "examples": 40 if tier == "quick" else 1500, "triples": 400 if tier == "quick" else 20000}))
    return out


def run_unit(ctx, name, **kw):
    if name == "faults":
        from . import faults
        faults.run_set(ctx, **kw)
        return
    if name == "named":
        d = gen.dom(kw["curve"])
        n = d.n
        nl = SU.olen(n)
        bs = gen.boundary_scalars(n)
        ds = [1, n - 1, 255, 256 ** max(1, nl - 2), 256 ** (nl - 1) - 1 if nl > 1 else 2, 256 ** (nl - 1) if 256 ** (nl - 1) < n else 3]
        ds += [bs[(7 * i + ctx.seed) % len(bs)] for i in range(kw["boundary"])]
        ds += leading_zero_keys(d, kw["lz"], 1000 + 997 * ctx.seed)
        for i in range(kw["random"]):
            ds.append(1 + int.from_bytes(hashlib.sha512(b"%d/%d/%s" % (ctx.seed, i, kw["curve"].encode())).digest() * 2, "big") % (n - 1))
        seen = set()
        for dd in ds:
            if dd in seen or not 1 <= dd < n:
                continue
            seen.add(dd)
            case = {"curve": kw["curve"], "d": dd}
            check_key(ctx, case)
            ctx.sample(case)
    elif name == "registered":
        check_all_registered(ctx)
    elif name == "registry":
        check_registry(ctx)
    elif name == "toys":
        for cname in gen.TOY_PRIME:
            d = gen.dom(cname)
            step = max(1, (d.n - 1) // kw["per"])
            for dd in sorted(set(list(range(1, d.n, step)) + [1, 2, d.n - 1, d.n - 2])):
                check_key(ctx, {"curve": cname, "d": dd})
            ctx.sample({"curve": cname, "d": d.n - 1})
    else:
        raise ValueError(name)


def replay(ctx, case):
    if case.get("kind") == "fault-history":
        from . import faults
        faults.replay(ctx, case)
        return
    if case.get("kind") == "registry":
        check_registry(ctx)
    elif case.get("kind") == "registered-curve":
        check_all_registered(ctx)
    else:
        check_key(ctx, case)
