"""Coverage-guided fuzzing (atheris / libFuzzer) of the decoder entry points of
C10, thorough tier only.  The oracle lives inside the target: an input is a
finding when an entry point lets an undocumented exception escape or returns an
unusable object.  Findings are written to a JSON-lines file as they occur
(atexit handlers do not run under libFuzzer) and re-validated by the parent
through the ordinary replay path, so every reported violation is reproducible
without atheris.

Run as a module:  python -m pbt.checks.c10_fuzz <curve> <runs> <seed> <corpus_dir> <findings.jsonl>
"""
import json
import os
import subprocess
import sys
import tempfile

from .. import VERIF_DIR

CURVE = "NIST192p"


def _target_main(argv):
    curve, runs, seed, corpus, out = argv[0], int(argv[1]), int(argv[2]), argv[3], argv[4]
    import atheris

    with atheris.instrument_imports(include=["ecdsa"]):
        import ecdsa  # noqa
        from . import c10

    eps = dict(c10.entry_points(curve))
    names = sorted(eps)
    seen = set()
    fh = open(out, "a")

    def one(data):
        if len(data) < 2:
            return
        name = names[data[0] % len(names)]
        mode = data[1] % 3
        payload = bytes(data[2:])
        fn, allowed, usable = eps[name]
        arg = c10.wrap(payload, mode, pem=name.endswith("_pem"))
        try:
            res = fn(arg)
            if usable is not None and res is not None:
                usable(res)
        except allowed:
            return
        except Exception as e:
            key = (name, type(e).__name__)
            if key not in seen:
                seen.add(key)
                fh.write(json.dumps({"curve": curve, "entry": name, "mode": mode, "data": payload.hex()}) + "\n")
                fh.flush()

    atheris.Setup([sys.argv[0], "-runs=%d" % runs, "-seed=%d" % seed, "-max_len=600", "-len_control=0",
                   "-print_final_stats=1", corpus], one)
    atheris.Fuzz()


def campaign(ctx, runs, curves=("SECP112r1", "NIST192p"), kinds=("empty", "seeded")):
    """campaigns per curve: empty corpus and a corpus of valid encodings"""
    from . import c10
    try:
        import atheris  # noqa
    except Exception as e:
        ctx.notes.append("atheris not importable: %r" % (e,))
        ctx.event("atheris:unavailable")
        return
    for curve in curves:
        eps = dict(c10.entry_points(curve))
        names = sorted(eps)
        for kind in kinds:
            with tempfile.TemporaryDirectory(prefix="c10fuzz_") as td:
                corpus = os.path.join(td, "corpus")
                os.makedirs(corpus)
                if kind == "seeded":
                    i = 0
                    for grp in c10.seeds_for(curve).values():
                        for ep_name, seed in grp:
                            if ep_name in names:
                                i += 1
                                with open(os.path.join(corpus, "s%03d" % i), "wb") as f:
                                    f.write(bytes([names.index(ep_name), 0]) + seed)
                out = os.path.join(td, "findings.jsonl")
                open(out, "w").close()
                env = dict(os.environ)
                env["PYTHONPATH"] = os.pathsep.join([VERIF_DIR, os.path.join(VERIF_DIR, ".deps")])
                r = subprocess.run([sys.executable, "-W", "ignore", "-m", "pbt.checks.c10_fuzz", curve,
                                    str(runs), str(ctx.seed), corpus, out], env=env, capture_output=True, text=True,
                                   timeout=7200, cwd=VERIF_DIR)
                execs = 0
                for line in (r.stderr or "").splitlines():
                    if "stat::number_of_executed_units" in line:
                        execs = int(line.split()[-1])
                ctx.ev(execs)
                ctx.event("atheris:%s:%s:execs" % (curve, kind), execs)
                if execs == 0:
                    raise RuntimeError("atheris campaign produced no executions: %s" % (r.stderr or "")[-800:])
                for line in open(out):
                    case = json.loads(line)
                    ctx.event("atheris:finding-candidates")
                    c10.replay(ctx, case)       # re-validate without atheris; records the failure if real
                ctx.nontrivial(("atheris", curve, kind, execs))
                ctx.sample({"kind": "atheris", "curve": curve, "corpus": kind, "executions": execs})


if __name__ == "__main__":
    _target_main(sys.argv[1:])
