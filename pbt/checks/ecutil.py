"""Helpers shared by the point-arithmetic checks (C06, C07, C19)."""
from ..ref import ec as rec

from ecdsa import ellipticcurve as E
from ecdsa.ellipticcurve import CurveFp, PointJacobi, Point, INFINITY

REPS = ("J1", "Jz2", "Jzm1", "Jneg", "Jnegz3", "Jacc", "L")


def all_curves(p):
    for a in range(p):
        for b in range(p):
            c = (p, a, b)
            if rec.nonsingular(c):
                yield c


def coords(pj):
    return pj._PointJacobi__coords


def denotes(pj, c):
    """affine value denoted by the internal coordinates, computed by the
    harness (Z=0 -> identity).  Independent of the library's own x()/y()."""
    X, Y, Z = coords(pj)
    p = c[0]
    Z %= p
    if Z == 0:
        return None
    zi = pow(Z, -1, p)
    return (X * zi * zi % p, Y * zi * zi * zi % p)


def build(cf, c, P, rep, order=None, generator=False, helper=None):
    """library object denoting affine point P (not the identity) in the
    requested representation; returns None if the representation cannot be
    built for this point (counted by the caller)."""
    p = c[0]
    x, y = P
    if rep == "J1":
        return PointJacobi(cf, x, y, 1, order, generator)
    if rep in ("Jz2", "Jzm1", "Jz3"):
        z = {"Jz2": 2, "Jzm1": p - 1, "Jz3": 3}[rep] % p
        if z in (0, 1):
            return None
        return PointJacobi(cf, x * z * z % p, y * z * z * z % p, z, order, generator)
    if rep == "Jneg":
        # negation of -P: internally Z=1 and an unreduced / negated Y
        return -PointJacobi(cf, x, (-y) % p, 1, order, generator)
    if rep == "Jnegz3":
        z = 3 % p
        if z in (0, 1):
            return None
        return -PointJacobi(cf, x * z * z % p, (-y) * z * z * z % p, z, order, generator)
    if rep == "Jacc":
        # unnormalised accumulator: (P + T) + (-T) computed by the library,
        # kept only if the harness confirms that it denotes P
        T = helper
        if T is None:
            return None
        S = rec.add(c, P, T)
        if S is None:
            return None
        try:
            acc = PointJacobi(cf, S[0], S[1], 1, order) + PointJacobi(cf, T[0], (-T[1]) % p, 1, order)
        except Exception:
            return None
        if not isinstance(acc, PointJacobi) or denotes(acc, c) != P:
            return None
        return acc
    if rep == "L":
        return Point(cf, x, y, order)
    raise ValueError(rep)


def pick_helper(c, pts, P):
    """a point T with T != +-P, P+T != identity, y(T) != 0, y(P+T) != 0"""
    p = c[0]
    for T in pts:
        if T[1] == 0 or T[0] == P[0]:
            continue
        S = rec.add(c, P, T)
        if S is None or S[1] == 0 or S[0] == T[0]:
            continue
        return T
    return None


def is_inf(R):
    try:
        return R is INFINITY or (R == INFINITY) is True
    except Exception:
        return False


def result_matches(R, want, p):
    """-> None if library result R denotes `want` with canonical coordinates,
    else a short reason string"""
    if want is None:
        if R is INFINITY:
            return None
        if isinstance(R, (PointJacobi, Point)) and is_inf(R):
            return None
        return "identity expected"
    if R is INFINITY:
        return "identity returned"
    try:
        x, y = R.x(), R.y()
    except Exception as e:
        return "x()/y() raised %r" % (e,)
    if x is None or y is None:
        return "identity returned"
    if (x, y) != want:
        if (x % p, y % p) == want:
            return "non-canonical coordinates"
        return "wrong point"
    return None
