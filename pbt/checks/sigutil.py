"""Helpers shared by the signature checks (C01-C04, C14)."""
import hashlib

from .. import gen
from ..ref import der as rder
from ..ref import dsa as rdsa
from ..ref import ec as rec

from ecdsa import util as U
from ecdsa import SigningKey, VerifyingKey
from ecdsa.ecdsa import Signature

ENCODINGS = {
    "string": (U.sigencode_string, U.sigdecode_string),
    "strings": (U.sigencode_strings, U.sigdecode_strings),
    "der": (U.sigencode_der, U.sigdecode_der),
    "string_canonize": (U.sigencode_string_canonize, U.sigdecode_string),
    "strings_canonize": (U.sigencode_strings_canonize, U.sigdecode_strings),
    "der_canonize": (U.sigencode_der_canonize, U.sigdecode_der),
}
ENC_NAMES = list(ENCODINGS)


def rs_tuple(r, s, order):
    return (r, s)


def olen(n):
    return (n.bit_length() + 7) // 8


def pub_bytes(d, Q):
    return Q[0].to_bytes(d.plen, "big") + Q[1].to_bytes(d.plen, "big")


def make_sk(d, dd, hashfunc=hashlib.sha1):
    return SigningKey.from_secret_exponent(dd, curve=d.lib, hashfunc=hashfunc)


def make_vk(d, Q, hashfunc=hashlib.sha1):
    return VerifyingKey.from_string(pub_bytes(d, Q), curve=d.lib, hashfunc=hashfunc)


def e_of(digest, n, allow_truncate=True):
    """the integer the standard assigns to a digest; with truncation off the
    digest must not be longer (in bytes) than the order and is taken whole"""
    if allow_truncate:
        return rdsa.bits2int(digest, n.bit_length())
    return int.from_bytes(digest, "big")


def sig_to_json(sig):
    if isinstance(sig, (tuple, list)):
        return [bytes(x).hex() for x in sig]
    return bytes(sig).hex()


def sig_from_json(j):
    if isinstance(j, list):
        return [bytes.fromhex(x) for x in j]
    return bytes.fromhex(j)


def strict_decode(encname, sig, n):
    """reference decoding of an encoded signature -> (r, s) or None"""
    l = olen(n)
    base = encname.replace("_canonize", "")
    if base == "string":
        if not isinstance(sig, (bytes, bytearray)) or len(sig) != 2 * l:
            return None
        return int.from_bytes(sig[:l], "big"), int.from_bytes(sig[l:], "big")
    if base == "strings":
        if not isinstance(sig, (list, tuple)) or len(sig) != 2:
            return None
        if len(sig[0]) != l or len(sig[1]) != l:
            return None
        return int.from_bytes(sig[0], "big"), int.from_bytes(sig[1], "big")
    try:
        return rder.dec_sig(bytes(sig))
    except rder.DERError:
        return None


def encode_ref(encname, r, s, n):
    """reference encoder (no canonisation) for building decoder inputs"""
    l = olen(n)
    base = encname.replace("_canonize", "")
    if base == "string":
        return r.to_bytes(l, "big") + s.to_bytes(l, "big")
    if base == "strings":
        return [r.to_bytes(l, "big"), s.to_bytes(l, "big")]
    return rder.enc_sig(r, s)


# ---- key reload routes -----------------------------------------------------
VK_ROUTES_ANY = ["none", "raw", "uncompressed", "compressed", "hybrid"]
VK_ROUTES_NAMED = ["der-uncompressed", "der-compressed", "der-hybrid", "pem-uncompressed", "pem-compressed"]
SK_ROUTES_ANY = ["none", "raw"]
SK_ROUTES_NAMED = ["der-ssleay", "der-pkcs8", "pem-ssleay", "pem-pkcs8", "der-ssleay-compressed",
                   "pem-pkcs8-hybrid"]


def reload_vk(vk, route, d, hashfunc):
    if route == "none":
        return vk
    if route in ("raw", "uncompressed", "compressed", "hybrid"):
        if route == "compressed" and d.plen * 2 == d.plen + 1:
            route = "uncompressed"      # 1-byte fields: compressed length == raw length
        return VerifyingKey.from_string(vk.to_string(route), curve=d.lib, hashfunc=hashfunc)
    kind, enc = route.split("-")
    if kind == "der":
        return VerifyingKey.from_der(vk.to_der(enc), hashfunc=hashfunc)
    return VerifyingKey.from_pem(vk.to_pem(enc), hashfunc=hashfunc)


def reload_sk(sk, route, d, hashfunc):
    if route == "none":
        return sk
    if route == "raw":
        return SigningKey.from_string(sk.to_string(), curve=d.lib, hashfunc=hashfunc)
    parts = route.split("-")
    kind, fmt = parts[0], parts[1]
    enc = parts[2] if len(parts) > 2 else "uncompressed"
    if kind == "der":
        return SigningKey.from_der(sk.to_der(enc, format=fmt), hashfunc=hashfunc)
    return SigningKey.from_pem(sk.to_pem(enc, format=fmt), hashfunc=hashfunc)
