"""C07 - scalar multiplication and double-scalar multiplication."""
import math

from hypothesis import strategies as st

from .. import gen
from ..ref import ec as rec
from ..runner import run_hypothesis, exc_sig
from . import ecutil as EU
from .ecutil import CurveFp, PointJacobi, Point, INFINITY

RULE = (
    "Exhaustive part: every non-singular curve over small primes, every point P, every integer k in "
    "[-3, 2*ord(P)+3] (plus N-1..N+1, 2N-1..2N+1, 4N+1 for the group order N) through every path: "
    "generator=True object whose table is built lazily inside the call (fresh per k and reused), "
    "ordinary point via NAF; declared order None / ord(P) / N; representations Z=1, Z=2, Z=p-1, "
    "negated; k*P and P*k; legacy Point. mul_add(a,Q,b) for all Q (incl. P, -P, INFINITY, legacy "
    "Point, generator objects), a over the full range, b over a boundary set (full range on the "
    "smallest fields). Hypothesis part: 17 named curves with fresh and shared generator objects, "
    "d*G with/without declared order, random Z, multipliers 0, negative, n-1, n, n+1, 2n.., several*n+-d, "
    "runs of ones. Oracle: naive double-and-add on affine points. Non-trivial = k outside [2, ord-2], "
    "table path, declared order, Q in {+-P, identity}, a or b zero, NAF-carry patterns; distinct by "
    "(curve,P,k,path) - enumerated without repetition."
)
ASSUMPTIONS = [
    "a declared order always annihilates every point taking part (ord(P), lcm(ord P, ord Q) or the group order)",
    "points of even order (subgroup contains a y=0 point) are the recorded known-finding class",
]


def kclass(k, o):
    if k < 0:
        return "neg"
    if k == 0:
        return "zero"
    if k == 1:
        return "one"
    if k >= 2 * o:
        return ">=2ord"
    if k >= o - 1:
        return "ord-1..2ord"
    return "small"


def _mulcase(ctx, c, P, k, path, rep, order, ordP, side, enum, fresh_obj=None):
    """one multiplication; path in {'table','naf','legacy'}"""
    p = c[0]
    cf = CurveFp(p, c[1], c[2])
    want = rec.mul(c, k, P)
    y0 = ordP % 2 == 0
    case = {"kind": "mul", "c": list(c), "P": list(P), "k": k, "path": path, "rep": rep,
            "order": order, "side": side}
    ctx.case_sample(case)
    ctx.ev()
    try:
        if fresh_obj is not None:
            obj = fresh_obj
        elif path == "legacy":
            obj = Point(cf, P[0], P[1], order)
        else:
            obj = EU.build(cf, c, P, rep, order=order, generator=(path == "table"))
            if obj is None:
                ctx.event("rep-unavailable")
                return
        R = obj * k if side == "r" else k * obj
        why = EU.result_matches(R, want, p)
    except Exception as e:
        why = "exception " + exc_sig(e)
    kc = kclass(k, ordP)
    if why:
        if y0:
            sig = "mul/y0-class/%s" % ("legacy" if path == "legacy" else "jacobi")
        else:
            sig = "mul/%s/%s/%s/%s" % (path, "order" if order else "noorder", kc, why.replace(" ", "-"))
        ctx.fail(sig, case, "%s; reference %r" % (why, want))
    ctx.event("mul:%s:%s" % (path, kc))
    if kc != "small" or path == "table" or order:
        if enum:
            ctx.nontrivial_enum()
        else:
            ctx.nontrivial(("mul", c, P, k, path, rep, order, side))


def sweep_mul(ctx, c, reps):
    pts = rec.points(c)
    N = len(pts) + 1
    p = c[0]
    cf = CurveFp(p, c[1], c[2])
    for P in pts:
        o = rec.order(c, P)
        ks = list(range(-3, 2 * o + 4)) + [N - 1, N, N + 1, 2 * N - 1, 2 * N, 2 * N + 1, 4 * N + 1, -N, -N - 1,
                                           7 * N + 2, 16 * N - 1, 64 * N + 3, -33 * N - 1, 1 << 40, -(1 << 33) - 1]
        for order in (None, o, N):
            # NAF path, several representations
            for rep in reps:
                for k in ks:
                    _mulcase(ctx, c, P, k, "naf", rep, order, o, "r" if k % 2 else "l", True)
            if order:
                # table path: one object reused for every k (table built by the first call) ...
                for rep in ("J1", "Jz2"):
                    g = EU.build(cf, c, P, rep, order=order, generator=True)
                    if g is None:
                        continue
                    for k in ks:
                        _mulcase(ctx, c, P, k, "table", rep, order, o, "l" if k % 2 else "r", True, fresh_obj=g)
                    # a second table object for the same point that declares a larger (still annihilating) order
                    if rep == "J1":
                        g8 = EU.build(cf, c, P, rep, order=8 * order, generator=True)
                        for k in (7 * order + 5, 15 * order + 5, 9 * order - 1, -3, 16 * order + 1, 12 * order + 7):
                            _mulcase(ctx, c, P, k, "table-larger-declared-order", rep, 8 * order, o, "r", False, fresh_obj=g8)
                    # -g after g's table exists: must denote -P in every later use
                    try:
                        ng = -g
                    except Exception:
                        ng = None
                    if ng is not None:
                        for k in (1, 2, 3, o - 1, o + 1, 2 * o + 1, -2):
                            _mulcase(ctx, c, rec.neg(c, P), k, "naf-of-negated-table-point", rep, order, o, "r", False,
                                     fresh_obj=ng)
                # ... and a fresh object per k, so that the table is built inside this call
                for k in (-1, 0, 1, 2, 3, o - 1, o, o + 1, 2 * o - 1, 2 * o, 2 * o + 1):
                    _mulcase(ctx, c, P, k, "table", "J1", order, o, "r", False)
            # legacy affine class
            for k in ks:
                _mulcase(ctx, c, P, k, "legacy", "L", order, o, "r" if k % 2 else "l", True)


def _muladd_case(ctx, c, P, Q, a, b, kind_p, kind_q, order, ordP, ordQ, enum):
    p = c[0]
    cf = CurveFp(p, c[1], c[2])
    want = rec.add(c, rec.mul(c, a, P), rec.mul(c, b, Q))
    y0 = ordP % 2 == 0 or (Q is not None and ordQ % 2 == 0)
    case = {"kind": "muladd", "c": list(c), "P": list(P), "Q": Q and list(Q), "a": a, "b": b,
            "kp": kind_p, "kq": kind_q, "order": order}
    ctx.case_sample(case)
    ctx.ev()
    try:
        A = _mk_operand(cf, c, P, kind_p, order)
        if Q is None and kind_q == "z0":
            B = PointJacobi(cf, 4 % p, 8 % p, 0, order)           # the identity in Jacobian form
        elif Q is None and kind_q == "infcopy":
            import pickle
            B = pickle.loads(pickle.dumps(INFINITY))
        else:
            B = INFINITY if Q is None else _mk_operand(cf, c, Q, kind_q, order)
        if A is None or B is None:
            ctx.event("rep-unavailable")
            return
        R = A.mul_add(a, B, b)
        why = EU.result_matches(R, want, p)
    except Exception as e:
        why = "exception " + exc_sig(e)
    if Q is None:
        rel = "Q=inf"
    elif Q == P:
        rel = "Q=P"
    elif Q == rec.neg(c, P):
        rel = "Q=-P"
    else:
        rel = "generic"
    zeros = "a0" if a == 0 else ("b0" if b == 0 else "nz")
    if why:
        if y0:
            sig = "mul_add/y0-class"
        else:
            sig = "mul_add/%s+%s/%s/%s/%s/%s" % (kind_p, kind_q, "order" if order else "noorder", rel, zeros,
                                                 why.replace(" ", "-"))
        ctx.fail(sig, case, "%s; reference %r" % (why, want))
    ctx.event("mul_add:%s:%s" % (rel, zeros))
    if rel != "generic" or zeros != "nz" or want is None or kind_p != "plain" or kind_q != "plain":
        if enum:
            ctx.nontrivial_enum()
        else:
            ctx.nontrivial(("muladd", c, P, Q, a, b, kind_p, kind_q, order))


def _mk_operand(cf, c, P, kind, order):
    if kind == "plain-noorder":
        return EU.build(cf, c, P, "J1", order=None)
    if kind == "plain":
        return EU.build(cf, c, P, "J1", order=order)
    if kind == "z2":
        return EU.build(cf, c, P, "Jz2", order=order)
    if kind == "neg":
        return EU.build(cf, c, P, "Jneg", order=order)
    if kind == "gen":
        return EU.build(cf, c, P, "J1", order=order, generator=True)
    if kind == "genz":
        # table point handed over unnormalised (Z != 1) whose very first use is this call
        return EU.build(cf, c, P, "Jz2", order=order, generator=True)
    if kind == "legacy":
        return Point(cf, P[0], P[1], order)
    raise ValueError(kind)


def sweep_muladd(ctx, c, full_b, pmod=1, pres=0):
    pts = rec.points(c)
    N = len(pts) + 1
    orders = {P: rec.order(c, P) for P in pts}
    for ip, P in enumerate(pts):
        if ip % pmod != pres:
            continue
        oP = orders[P]
        for Q in [None] + pts:
            oQ = orders[Q] if Q is not None else 1
            L = oP * oQ // math.gcd(oP, oQ)
            arange = range(-2, 2 * L + 2)
            brange = arange if full_b else sorted({-2, -1, 0, 1, 2, 3, L - 1, L, L + 1, 2 * L - 1, 2 * L + 1})
            huge = [(7 * L + 1, 11 * L + 3), (-9 * L - 2, 5), (3, 64 * L + 1), (-33 * L + 2, -17 * L - 1), (1 << 40, (1 << 41) + 1)]
            combos = [("plain", "plain", None), ("plain", "plain", L), ("z2", "neg", None)]
            if Q is not None:
                combos += [("gen", "gen", L), ("gen", "plain", L), ("plain", "legacy", None), ("plain", "gen", L),
                           ("genz", "plain", L), ("plain", "genz", L), ("genz", "genz", L),
                           ("plain-noorder", "gen", L), ("plain-noorder", "genz", L), ("gen", "plain-noorder", L)]
            if Q is None:
                combos += [("plain", "z0", None), ("gen", "z0", L), ("plain", "infcopy", L), ("genz", "z0", L)]
            for kp, kq, order in combos:
                kq_ = kq if (Q is not None or kq in ("z0", "infcopy")) else "plain"
                for a in arange:
                    for b in brange:
                        _muladd_case(ctx, c, P, Q, a, b, kp, kq_, order, oP, oQ, True)
                for a, b in huge:
                    _muladd_case(ctx, c, P, Q, a, b, kp, kq_, order, oP, oQ, False)


# ---------------------------------------------------------------- production curves
_shared = {}


def check_big(ctx, case):
    d = gen.dom(case["curve"])
    c, p, n = d.c, d.p, d.n
    cf = d.lib.curve
    kind = case["obj"]
    dd = case["d"]
    P = rec.mul(c, dd, d.G) if kind not in ("fresh-gen", "shared-gen", "cached-gen") else d.G
    if P is None:
        return
    z = case["z"] % p or 1
    k = case["k"]
    ctx.ev()
    try:
        if kind == "fresh-gen":
            obj = PointJacobi(cf, d.G[0], d.G[1], 1, n, generator=True)
        elif kind == "cached-gen":
            key = case["curve"]
            if key not in _shared:
                _shared[key] = PointJacobi(cf, d.G[0], d.G[1], 1, n, generator=True)
            obj = _shared[key]
        elif kind == "shared-gen":
            obj = d.lib.generator
        elif kind == "plain":
            obj = PointJacobi(cf, P[0] * z * z % p, P[1] * z * z * z % p, z, None)
        elif kind == "ordered":
            obj = PointJacobi(cf, P[0] * z * z % p, P[1] * z * z * z % p, z, n)
        elif kind == "neg":
            obj = -PointJacobi(cf, P[0] * z * z % p, (-P[1]) * z * z * z % p, z, n)
        elif kind == "pub-table":
            obj = PointJacobi(cf, P[0], P[1], 1, n, generator=True)
        elif kind == "pub-table-z":
            obj = PointJacobi(cf, P[0] * z * z % p, P[1] * z * z * z % p, z, n, generator=True)
        elif kind == "legacy":
            obj = Point(cf, P[0], P[1], n)
        else:
            raise ValueError(kind)
        if case["op"] == "mul":
            want = rec.mul(c, k % n, P)
            R = obj * k if case["side"] else k * obj
        else:
            qm = case["qmode"]
            if qm == "P":
                Q = P
            elif qm == "-P":
                Q = rec.neg(c, P)
            elif qm == "2P":
                Q = rec.dbl(c, P)
            elif qm == "inf":
                Q = None
            else:
                Q = rec.mul(c, case["qd"], d.G)
            b = case["b"]
            want = rec.add(c, rec.mul(c, k % n, P), rec.mul(c, b % n, Q))
            if Q is None:
                qobj = INFINITY
            elif case["qkind"] == "legacy":
                qobj = Point(cf, Q[0], Q[1], n)
            elif case["qkind"] == "table":
                z2 = case["z2"] % p or 1
                qobj = PointJacobi(cf, Q[0] * z2 * z2 % p, Q[1] * z2 * z2 * z2 % p, z2, n, generator=True)
            else:
                z2 = case["z2"] % p or 1
                qobj = PointJacobi(cf, Q[0] * z2 * z2 % p, Q[1] * z2 * z2 * z2 % p, z2, n)
            R = obj.mul_add(k, qobj, b)
        why = EU.result_matches(R, want, p)
    except Exception as e:
        why = "exception " + exc_sig(e)
    if why:
        ctx.fail("big-%s/%s/%s/%s" % (case["op"], kind, kclass(k, n), why.replace(" ", "-")), case,
                 "%s" % why)
    ctx.event("big:%s:%s:%s" % (case["op"], kind, kclass(k, n)))
    ctx.nontrivial(("big", tuple(sorted((a, str(b)) for a, b in case.items()))))


def st_big(names, allow_fresh):
    objs = ["cached-gen", "shared-gen", "plain", "ordered", "neg", "pub-table", "pub-table-z", "legacy"] + (["fresh-gen"] if allow_fresh else [])

    def mk(cname, obj, op, di, u, kk, side, z, qmode, qkind, qd, b, z2):
        n = gen.dom(cname).n
        bs = gen.boundary_scalars(n)
        dd = bs[di % len(bs)] if di >= 0 else 1 + u % (n - 1)
        k = kk(n)
        bb = b(n)
        if obj == "legacy":
            k = k % (3 * n)    # the legacy class is slow; keep scalars bounded
            op = "mul"
        return {"kind": "big", "curve": cname, "obj": obj, "op": op, "d": dd, "k": k, "side": side, "z": z,
                "qmode": qmode, "qkind": qkind, "qd": 1 + qd % (n - 1), "b": bb, "z2": z2}

    # multipliers are functions of n so that one strategy serves all curves
    def mult():
        return st.one_of(
            st.sampled_from([lambda n: 0, lambda n: 1, lambda n: 2, lambda n: -1, lambda n: n - 1, lambda n: n,
                             lambda n: n + 1, lambda n: 2 * n - 1, lambda n: 2 * n, lambda n: 2 * n + 1,
                             lambda n: 3 * n + 2, lambda n: -n + 1, lambda n: -2 * n - 1,
                             lambda n: (1 << (n.bit_length() - 1)) - 1, lambda n: (1 << n.bit_length()) - 1,
                             lambda n: int("5" * (n.bit_length() // 4 + 1), 16) % n,
                             lambda n: int("3" * (n.bit_length() // 4), 16) % n]),
            st.integers(0, 1 << 530).map(lambda u: (lambda n: u % (4 * n))),
            st.integers(0, 1 << 530).map(lambda u: (lambda n: -(u % (2 * n)))),
            st.integers(0, 1 << 530).map(lambda u: (lambda n: 1 + u % (n - 1))),
            st.tuples(st.integers(0, 5), st.integers(-3, 3)).map(lambda t: (lambda n: t[0] * n + t[1])),
            st.tuples(st.integers(-70, 70), st.integers(-3, 3)).map(lambda t: (lambda n: t[0] * n + t[1])),
            st.integers(0, 1 << 530).map(lambda u: (lambda n: u % (1 << (n.bit_length() + 7)))),
            st.integers(0, 1 << 530).map(lambda u: (lambda n: -(u % (1 << (n.bit_length() + 9))))),
        )

    return st.builds(mk, st.sampled_from(names), st.sampled_from(objs), st.sampled_from(["mul", "mul", "muladd"]),
                     st.integers(-20, 60), st.integers(0, 1 << 530), mult(), st.booleans(),
                     st.one_of(st.just(1), st.integers(2, 1 << 530)),
                     st.sampled_from(["P", "-P", "2P", "inf", "rand", "rand"]),
                     st.sampled_from(["jac", "jac", "legacy", "table"]), st.integers(0, 1 << 530), mult(),
                     st.one_of(st.just(1), st.integers(2, 1 << 530)))


def units(tier, seed):
    q = tier == "quick"
    out = []
    primes = [5, 7, 11, 13] if q else [5, 7, 11, 13, 17, 19, 23]
    for p in primes:
        curves = list(EU.all_curves(p))
        if p > 13:
            curves = curves[::5]
        chunk = max(1, len(curves) // (2 if p < 11 else (10 if q else 20)))
        for i in range(0, len(curves), chunk):
            out.append(("mul-sweep", {"curves": [list(c) for c in curves[i:i + chunk]],
                                      "reps": ["J1", "Jz2", "Jzm1", "Jneg"] if p <= 13 else ["J1", "Jz2"]}))
    for p in ([5] if q else [5, 7]):
        curves = list(EU.all_curves(p))
        chunk = max(1, len(curves) // (6 if p <= 5 else 30))
        for i in range(0, len(curves), chunk):
            out.append(("muladd-sweep", {"curves": [list(c) for c in curves[i:i + chunk]], "full_b": True}))
    c7 = [list(c) for c in list(EU.all_curves(7))[:: (2 if q else 1)]]
    for i in range(6):
        out.append(("muladd-sweep", {"curves": c7[i::6], "full_b": False}))
    big = [list(c) for c in list(EU.all_curves(11))[:: (40 if q else 3)]] + \
          [list(c) for c in list(EU.all_curves(13))[:: (80 if q else 6)]]
    for c in big:
        for r in range(6):
            out.append(("muladd-sweep", {"curves": [c], "full_b": False, "pmod": 6, "pres": r}))
    names = gen.NAMED
    for i in range(8):
        out.append(("named", {"names": names[i::8], "examples": 70 if q else 1500, "fresh": i % 4 == 0}))
    # toy prime-order curves through the same generic path (cheap, many cases)
    out.append(("toy-named", {"names": ["t13", "t23a", "t251a", "t1021a", "t65521b"], "examples": 1500 if q else 30000}))
    for i in range(3):
        out.append(("history", {"curve": ("t13", "t23a", "t13")[i], "examples": 150 if tier == "quick" else 4000, "steps": 40, "label": "h%d" % i}))
    out.append(("inject", {"level": 'points', "curve": 't23a', "max_points": 400 if tier == "quick" else 8000}))
    out.append(("inject", {"level": 'points', "curve": 't13', "max_points": 400 if tier == "quick" else 8000}))
    out.append(("inject", {"level": 'points', "curve": 'NIST192p', "max_points": 40 if tier == "quick" else 800}))
    return out


def run_unit(ctx, name, **kw):
    if name == "inject":
        from . import inject
        inject.run(ctx, **kw)
        return
    if name == "history":
        # histories over live point objects (cached / in-place state, failed operations): the C19 machine
        from . import c19
        c19.run_unit(ctx, "machine", **kw)
        return
    if name == "mul-sweep":
        for c in kw["curves"]:
            sweep_mul(ctx, tuple(c), kw["reps"])
        ctx.sample({"kind": "mul-sweep", "c": kw["curves"][0], "note": "all points x all k in [-3,2ord+3] x all paths"})
        ctx.exhausted("scalar multiplication: listed curves x all points x k range x paths")
    elif name == "muladd-sweep":
        for c in kw["curves"]:
            sweep_muladd(ctx, tuple(c), kw["full_b"], kw.get("pmod", 1), kw.get("pres", 0))
        ctx.sample({"kind": "muladd-sweep", "c": kw["curves"][0], "full_b": kw["full_b"]})
        ctx.exhausted("mul_add: listed curves x all (P,Q) x a range x b set x operand kinds")
    elif name in ("named", "toy-named"):
        def body(c, case):
            check_big(c, case)
            c.sample(case)
        run_hypothesis(ctx, "big", st_big(kw["names"], kw.get("fresh", True)), body, kw["examples"])
    else:
        raise ValueError(name)


def replay(ctx, case):
    if case.get("kind") == "inject":
        from . import inject
        inject.replay(ctx, case)
        return
    if case.get("kind") == "history":
        from . import c19
        return c19.replay(ctx, case)
    k = case["kind"]
    t = lambda v: None if v is None else tuple(v)
    if k == "mul":
        c = tuple(case["c"])
        P = t(case["P"])
        _mulcase(ctx, c, P, case["k"], case["path"], case["rep"], case["order"], rec.order(c, P),
                 case["side"], False)
    elif k == "muladd":
        c = tuple(case["c"])
        P, Q = t(case["P"]), t(case["Q"])
        _muladd_case(ctx, c, P, Q, case["a"], case["b"], case["kp"], case["kq"], case["order"],
                     rec.order(c, P), rec.order(c, Q) if Q is not None else 1, False)
    elif k == "big":
        check_big(ctx, case)
