"""C13 - canonical (low-S) signature encoders."""
from hypothesis import strategies as st

from .. import gen
from ..ref import dsa as rdsa
from ..ref import ec as rec
from ..ref import der as rder
from ..runner import run_hypothesis, exc_sig

from ecdsa import util as U
from ecdsa import SigningKey, VerifyingKey, BadSignatureError
import hashlib

RULE = (
    "Cases are (order n, r, s) triples pushed through the three canonical "
    "encoders and matching decoders, compared with s'=min(s,n-s) computed in "
    "integer arithmetic and with the plain encoder's bytes for (r,s'); plus "
    "key-level cases (curve, d, e, r, s) where the library's verdict on the "
    "canonical encoding is compared with the reference ECDSA verdict on (r,s). "
    "Enumerated: every n in a range with every s in [1,n-1]; constructed: the 17 "
    "curve orders and random n<=600 bits with s in floor(n/2)+[-3,3], "
    "floor(n/2)+-2^j for every j, 1, 2, n-2, n-1, uniform.  Non-trivial = "
    "|s-n/2| < 2^(bitlen(n)-50) (inside the float rounding band), or s<=2, or "
    "s>=n-2, or n even with s=n/2, or a key-level case; distinct by (n,r,s[,key,e]). The encoders are also run "
    "in two threads for two different orders under the harness scheduler with a preemption at every line of "
    "ecdsa.util (they are pure functions: results must equal the sequential ones)."
)
ASSUMPTIONS = [
    "order n >= 2 and 0 <= r < n, 1 <= s <= n-1 (the encoders' domain)",
    "reference ECDSA verification (pbt/ref/dsa.py) is correct",
]

ENC = {
    "string": (U.sigencode_string_canonize, U.sigencode_string, U.sigdecode_string),
    "strings": (U.sigencode_strings_canonize, U.sigencode_strings, U.sigdecode_strings),
    "der": (U.sigencode_der_canonize, U.sigencode_der, U.sigdecode_der),
}


def _nontrivial(n, s):
    bl = n.bit_length()
    band = 1 << max(0, bl - 50)
    return (
        abs(2 * s - n) < 2 * band
        or s <= 2
        or s >= n - 2
        or (n % 2 == 0 and 2 * s == n)
    )


def check_enc(ctx, n, r, s, enum=False):
    want = min(s, n - s)
    nt = _nontrivial(n, s)
    for name, (canon, plain, dec) in ENC.items():
        ctx.ev()
        case = {"kind": "enc", "n": n, "r": r, "s": s, "enc": name}
        ctx.case_sample(case)
        try:
            out = canon(r, s, n)
            r2, s2 = dec(out, n)
            ref_bytes = plain(r, want, n)
        except Exception as e:
            ctx.fail("enc-exception/%s/%s" % (name, exc_sig(e)), case, repr(e))
            continue
        cls = "s>n/2" if 2 * s > n else "s<=n/2"
        if s2 != want or 2 * s2 > n:
            ctx.fail("low-s-wrong/%s/%s" % (name, cls), case,
                     "emitted s=%d want min(s,n-s)=%d" % (s2, want))
        elif r2 != r:
            ctx.fail("r-changed/%s" % name, case, "r=%d emitted %d" % (r, r2))
        elif out != ref_bytes:
            ctx.fail("bytes-differ/%s" % name, case,
                     "canonical %r != plain(r,s') %r" % (out, ref_bytes))
    if nt:
        ctx.event("nontrivial:band-or-edge")
        if enum:
            ctx.nontrivial_enum()
        else:
            ctx.nontrivial(("enc", n, r, s))
    ctx.event("s>n/2" if 2 * s > n else "s<=n/2")


def structured_s(n):
    h = n // 2
    vals = {1, 2, n - 2, n - 1}
    for d in range(-3, 4):
        vals.add(h + d)
    for j in range(n.bit_length()):
        vals.add(h + (1 << j))
        vals.add(h - (1 << j))
        vals.add(h + 1 + (1 << j))
    return sorted(v for v in vals if 1 <= v <= n - 1)


def check_key(ctx, case):
    """key-level equivalence: verdict(canonical encoding of (r,s)) ==
    reference verdict on (r,s)"""
    d = gen.dom(case["curve"])
    n = d.n
    Q = tuple(case["Q"])
    e_bytes = bytes.fromhex(case["digest"])
    r, s = case["r"], case["s"]
    e = rdsa.bits2int(e_bytes, n.bit_length())
    want = rdsa.verify(d.ref, Q, e, r, s)
    vk = VerifyingKey.from_string(
        Q[0].to_bytes(d.plen, "big") + Q[1].to_bytes(d.plen, "big"), curve=d.lib
    )
    for name, (canon, plain, dec) in ENC.items():
        ctx.ev()
        c2 = dict(case, enc=name)
        try:
            sig = canon(r, s, n)
            try:
                got = vk.verify_digest(sig, e_bytes, sigdecode=dec, allow_truncate=True)
            except BadSignatureError:
                got = False
        except Exception as ex:
            ctx.fail("key-exception/%s/%s" % (name, exc_sig(ex)), c2, repr(ex))
            continue
        if got is not want:
            ctx.fail("verdict-changed/%s/ref=%s" % (name, want), c2,
                     "library says %r for canonical encoding, reference says %r for (r,s)" % (got, want))
    ctx.event("key:valid" if want else "key:invalid")
    ctx.nontrivial(("key", case["curve"], Q, case["digest"], r, s))


def st_order_case():
    def mk(n, pick, r_pick, u):
        ss = structured_s(n)
        s = ss[pick % len(ss)] if pick >= 0 else 1 + u % (n - 1)
        r = [0, 1, n - 1, n // 2, u % n][r_pick]
        return {"kind": "enc", "n": n, "r": r, "s": s}

    orders = st.one_of(
        st.sampled_from([gen.named(c).n for c in gen.NAMED]),
        st.integers(3, 1 << 600),
        st.builds(lambda k, d: max(3, (1 << k) + d), st.integers(2, 600), st.integers(-3, 3)),
    )
    return st.builds(mk, orders, st.integers(-40, 2000), st.integers(0, 4),
                     st.integers(0, 1 << 600))


def interleaved(ctx, stride):
    """the encoders are pure functions of (r, s, order): two threads encoding for different orders, with a
    context switch at every line of ecdsa.util, must get the sequential results (no hidden shared state)"""
    import ecdsa.util as UM
    from .purity import interleaved_pure
    n1, n2 = gen.named("NIST256p").n, gen.named("NIST384p").n
    jobs = {
        "a": lambda: [UM.sigencode_string_canonize(5, n1 // 2 + 7, n1), UM.sigencode_der_canonize(5, n1 - 3, n1)],
        "b": lambda: [UM.sigencode_string_canonize(9, n1 // 2 + 7, n2), UM.sigencode_strings_canonize(9, n2 - 2, n2)],
    }
    interleaved_pure(ctx, "encoders", [UM], jobs, stride, max_schedules=20000)


def units(tier, seed):
    top = 700 if tier == "quick" else 2600
    out = [("small-orders", {"lo": 2, "hi": top, "shard": i, "nshards": 12}) for i in range(12)]
    out.append(("curve-orders", {}))
    out.append(("random-orders", {"examples": 3000 if tier == "quick" else 60000}))
    out.append(("key-toy", {"curves": ["t23a", "t13"] if tier == "quick" else ["t23a", "t13", "t29", "t61", "t127"]}))
    out.append(("key-named", {"per_curve": 6 if tier == "quick" else 60}))
    out.append(("interleaved", {"stride": 1}))
    out.append(("faults", {"jobset": 'sig', "arg": None, "examples": 40 if tier == "quick" else 1500, "triples": 400 if tier == "quick" else 20000}))
    return out


def run_unit(ctx, name, **kw):
    if name == "faults":
        from . import faults
        faults.run_set(ctx, **kw)
        return
    if name == "small-orders":
        for n in range(kw["lo"], kw["hi"] + 1):
            if n % kw["nshards"] != kw["shard"]:
                continue
            for s in range(1, n):
                check_enc(ctx, n, (s * 7 + 1) % n, s, enum=True)
            if n in (2, 255, 256, 257):
                ctx.sample({"kind": "enc", "n": n, "all_s": "1..%d" % (n - 1)})
        ctx.exhausted("all n in [%d,%d] x all s in [1,n-1]" % (kw["lo"], kw["hi"]))
    elif name == "curve-orders":
        M61 = (1 << 61) - 1
        for cname in gen.NAMED:
            n = gen.named(cname).n
            for s in structured_s(n):
                for r in (1, n - 1):
                    check_enc(ctx, n, r, s)
            # orders that are only special relative to the one just used: same hash() (congruent mod 2^61-1),
            # same bit length, neighbours
            for n2 in (n + 2 * M61, n + M61 * 1024, n - 2 * M61, n + 2, n - 2):
                for s in structured_s(n2) + [n // 2, n // 2 + 1, n // 2 + M61, n2 // 2 - M61 + 1]:
                    if 1 <= s < n2:
                        check_enc(ctx, n2, 1, s)
        # key history: the same key signs the same digest with a plain and then with a canonical encoder
        for cname in ("SECP112r1", "NIST192p", "t251a"):
            d = gen.dom(cname)
            sk = SigningKey.from_secret_exponent(d.n // 7 + 3, curve=d.lib, hashfunc=hashlib.sha256)
            found = 0
            for i in range(60):
                dig = hashlib.sha256(b"hist-%d" % i).digest()[: (d.n.bit_length() + 7) // 8]
                ctx.ev()
                plain = sk.sign_digest_deterministic(dig, sigencode=U.sigencode_string, allow_truncate=True)
                r0, s0 = U.sigdecode_string(plain, d.n)
                for canon, dec in ((U.sigencode_string_canonize, U.sigdecode_string),
                                   (U.sigencode_der_canonize, U.sigdecode_der)):
                    try:
                        r1, s1 = dec(sk.sign_digest_deterministic(dig, sigencode=canon, allow_truncate=True), d.n)
                    except Exception as e:
                        ctx.fail("key-history/canonical-after-plain/exception", {"kind": "enc", "n": d.n, "r": r0, "s": s0},
                                 "same key, same digest: canonical call after a plain one: %r" % (e,))
                        continue
                    if (r1, s1) != (r0, min(s0, d.n - s0)):
                        ctx.fail("key-history/canonical-after-plain", {"kind": "enc", "n": d.n, "r": r0, "s": s0},
                                 "same key, same digest: plain gave s=%d, canonical call returned s=%d" % (s0, s1))
                if 2 * s0 > d.n:
                    found += 1
                    ctx.nontrivial(("key-history", cname, i))
                if found >= 6:
                    break
            ctx.sample({"kind": "enc", "curve": cname, "n": n, "s": n // 2 + 1})
    elif name == "random-orders":
        def body(c, case):
            check_enc(c, case["n"], case["r"], case["s"])
            c.sample(case)
        run_hypothesis(ctx, "orders", st_order_case(), body, kw["examples"])
    elif name == "key-toy":
        for cname in kw["curves"]:
            d = gen.dom(cname)
            n = d.n
            for dd in sorted({1, 2, n // 2, n - 1}):
                Q = rec.mul(d.c, dd, d.G)
                for dig in (b"\x00", b"\x07", b"\xff", b"\x01\x02"):
                    for r in range(0, n + 1):
                        for s in range(1, n):
                            check_key(ctx, {"kind": "key", "curve": cname, "Q": list(Q),
                                            "digest": dig.hex(), "r": r, "s": s})
            ctx.sample({"kind": "key", "curve": cname, "all_r_s": True})
    elif name == "interleaved":
        interleaved(ctx, kw["stride"])
    elif name == "key-named":
        from hypothesis import strategies as st2

        for cname in gen.NAMED:
            d = gen.dom(cname)
            n = d.n
            for i in range(kw["per_curve"]):
                dd = gen.boundary_scalars(n)[(i * 5 + ctx.seed) % len(gen.boundary_scalars(n))]
                k = gen.boundary_scalars(n)[(i * 11 + 3 + ctx.seed) % len(gen.boundary_scalars(n))]
                dig = hashlib.sha512(b"%d-%d-%s" % (ctx.seed, i, cname.encode())).digest()[: 1 + (i * 13) % 64]
                e = rdsa.bits2int(dig, n.bit_length())
                rs = rdsa.sign(d.ref, dd, k, e)
                if rs == "RS-ZERO":
                    continue
                r, s = rs
                Q = rec.mul(d.c, dd, d.G)
                base = {"kind": "key", "curve": cname, "Q": list(Q), "digest": dig.hex()}
                for (rr, ss) in ((r, s), (r, n - s), (r, (s + 1) % n or 1), ((r + 1) % n, s)):
                    check_key(ctx, dict(base, r=rr, s=ss))
                if i == 0:
                    ctx.sample(dict(base, r=r, s=s))
    else:
        raise ValueError(name)


def replay(ctx, case):
    if case.get("kind") == "fault-history":
        from . import faults
        faults.replay(ctx, case)
        return
    if case.get("kind") == "interleaved":
        interleaved(ctx, 1)
    elif case.get("kind") == "key":
        check_key(ctx, case)
    else:
        check_enc(ctx, case["n"], case["r"], case["s"])
