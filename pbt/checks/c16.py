"""C16 - primality, next prime, factorisation, gcd, lcm."""
import math

from hypothesis import strategies as st

from .. import gen
from ..ref import nt as RN
from ..runner import run_hypothesis, exc_sig

from ecdsa import numbertheory as NT

RULE = (
    "is_prime: every integer in [-5, B) against a sieve, the published smallest strong "
    "pseudoprimes psi_1..psi_11, Carmichael numbers (table + Chernick form), products p(2p-1), "
    "(k+1)(2k+1), p^2, p*q with close p,q near 2^16/2^32, random 64-bit integers (oracle: "
    "12-base deterministic Miller-Rabin, exact below 3.18e23), and known large primes (Mersenne, "
    "curve primes) that must never be rejected. next_prime: every start below a bound against "
    "the sieve, random starts below 2^40. factorization: every n below a bound against trial "
    "division and n assembled from known primes with exponents. gcd/lcm: 1-6 positive integers "
    "(zeros allowed for gcd) as varargs, list and tuple against definitions. Non-trivial = "
    "is_prime input above the small-prime table (n > 1229) or below 2, composite with no factor "
    "<= 11, or any next_prime/factorization/gcd/lcm case; distinct by (function, arguments)."
)
ASSUMPTIONS = [
    "reference Miller-Rabin with the 12 prime bases <= 37 is exact below 3.18e23 (Sorenson-Webster)",
    "lcm arguments are positive (the docs do not define lcm for 0 / negatives)",
]

PSI = [2047, 1373653, 25326001, 3215031751, 2152302898747, 3474749660383,
       341550071728321, 3825123056546413051]
CARMICHAEL = [561, 1105, 1729, 2465, 2821, 6601, 8911, 10585, 15841, 29341, 41041, 46657, 52633,
              62745, 63973, 75361, 101101, 115921, 126217, 162401, 172081, 188461, 252601,
              278545, 294409, 314821, 334153, 340561, 399001, 410041, 449065, 488881, 512461,
              9746347772161, 1436697831295441, 60977817398996785]
KNOWN_BIG_PRIMES = [2 ** 89 - 1, 2 ** 107 - 1, 2 ** 127 - 1, 2 ** 521 - 1, 2 ** 607 - 1,
                    2 ** 1279 - 1, 2 ** 2203 - 1, 2 ** 255 - 19]


def check_is_prime(ctx, n, want, enum=False, why="range"):
    ctx.ev()
    case = {"fn": "is_prime", "n": n}
    ctx.case_sample(case)
    try:
        got = NT.is_prime(n)
    except Exception as e:
        ctx.fail("is_prime/exception/%s" % exc_sig(e), case, repr(e))
        return
    if bool(got) != want or not isinstance(got, bool):
        cls = "prime-rejected" if want else "composite-accepted"
        size = "table" if n <= 1229 else ("small" if n < 2 ** 20 else "big")
        ctx.fail("is_prime/%s/%s" % (cls, size), case, "got %r (%s)" % (got, why))
    nt = n > 1229 or n < 2
    if want is False and n > 1229 and math.gcd(n, 2310) == 1:
        ctx.event("is_prime:composite-coprime-to-2310")
    ctx.event("is_prime:" + why)
    if nt:
        if enum:
            ctx.nontrivial_enum()
        else:
            ctx.nontrivial(("isp", n))


def check_next_prime(ctx, n, want, enum=False):
    ctx.ev()
    case = {"fn": "next_prime", "n": n}
    try:
        got = NT.next_prime(n)
    except Exception as e:
        ctx.fail("next_prime/exception/%s" % exc_sig(e), case, repr(e))
        return
    if got != want:
        ctx.fail("next_prime/wrong/%s" % ("low" if n < 3 else ("even" if n % 2 == 0 else "odd")), case,
                 "got %r want %r" % (got, want))
    if enum:
        ctx.nontrivial_enum()
    else:
        ctx.nontrivial(("np", n))


def check_factorization(ctx, n, want, enum=False):
    ctx.ev()
    case = {"fn": "factorization", "n": n}
    ctx.case_sample(case)
    try:
        got = NT.factorization(n)
    except Exception as e:
        ctx.fail("factorization/exception/%s" % exc_sig(e), case, repr(e))
        return
    got = [tuple(int(x) for x in f) for f in got]
    if got != want:
        big = "beyond-table" if n > 1229 * 1229 else "small"
        ctx.fail("factorization/wrong/%s" % big, case, "got %r want %r" % (got[:8], want[:8]))
    if enum:
        ctx.nontrivial_enum()
    else:
        ctx.nontrivial(("fac", n))


def check_gcdlcm(ctx, xs):
    case = {"fn": "gcdlcm", "xs": list(xs)}
    wg = RN.gcd(*xs)
    pos = all(x > 0 for x in xs)
    wl = RN.lcm(*xs) if pos else None
    forms = [("varargs", lambda f: f(*xs)), ("list", lambda f: f(list(xs))), ("tuple", lambda f: f(tuple(xs))),
             ("generator", lambda f: f(x for x in xs)), ("iterator", lambda f: f(iter(list(xs)))),
             ("dict-keys", lambda f: f(dict.fromkeys(xs).keys()))]
    for fname, call in forms:
        ctx.ev()
        try:
            g = call(NT.gcd)
            if g != wg:
                ctx.fail("gcd/wrong/%s" % fname, case, "got %r want %r" % (g, wg))
            if pos:
                l = call(NT.lcm)
                if l != wl:
                    ctx.fail("lcm/wrong/%s" % fname, case, "got %r want %r" % (l, wl))
        except Exception as e:
            ctx.fail("gcdlcm/exception/%s/%s" % (fname, type(e).__name__), case, repr(e))
    ctx.event("gcdlcm:len%d" % len(xs))
    ctx.nontrivial(("gl", tuple(xs)))


def adversarial_composites(limit=2 ** 64):
    out = {}
    for n in PSI:
        out[n] = "strong-pseudoprime"
    for n in CARMICHAEL:
        out[n] = "carmichael"
    # Chernick (6k+1)(12k+1)(18k+1)
    for k in range(1, 3000):
        a, b, c = 6 * k + 1, 12 * k + 1, 18 * k + 1
        if RN.is_prime(a) and RN.is_prime(b) and RN.is_prime(c) and a * b * c < limit:
            out[a * b * c] = "chernick"
    # p(2p-1), (k+1)(2k+1) shapes and squares, close products
    primes = RN.sieve(70000)
    for p in primes[5:]:
        if RN.is_prime(2 * p - 1):
            out[p * (2 * p - 1)] = "p(2p-1)"
        if RN.is_prime(4 * p - 3):
            out[p * (4 * p - 3)] = "p(4p-3)"
    for p in primes[5:2000] + primes[-60:]:
        out[p * p] = "square"
    for i in range(len(primes) - 1):
        if i < 400 or i > len(primes) - 60 or 195 < i < 215:
            out[primes[i] * primes[i + 1]] = "close-product"
    for base in (2 ** 16, 2 ** 31, 2 ** 32):
        n = base
        prev = None
        cnt = 0
        while cnt < 12:
            n += 1
            if RN.is_prime(n):
                if prev:
                    if prev * n < limit:
                        out[prev * n] = "close-product-big"
                prev = n
                cnt += 1
    # table boundary
    for n in range(1200, 1300):
        if not RN.is_prime(n):
            out[n] = "table-boundary"
    out[1229 * 1231] = "table-boundary"
    out[1231 * 1237] = "table-boundary"
    out[1223 * 1229] = "table-boundary"
    return out


def units(tier, seed):
    q = tier == "quick"
    top = 2 ** 17 if q else 2 ** 20
    out = []
    ns = 12
    for i in range(ns):
        out.append(("is_prime-range", {"lo": -5 + i * (top + 5) // ns, "hi": -5 + (i + 1) * (top + 5) // ns}))
    out.append(("is_prime-adversarial", {}))
    out.append(("interleaved", {"stride": 1, "max": 4000 if q else 40000}))
    out.append(("history", {}))
    out.append(("is_prime-random", {"examples": 3000 if q else 100000}))
    npt = 2 ** 13 if q else 2 ** 16
    for i in range(2):
        out.append(("next_prime-range", {"lo": -3 + i * npt // 2, "hi": -3 + (i + 1) * npt // 2 + (3 if i else 0)}))
    out.append(("next_prime-random", {"examples": 300 if q else 6000}))
    ft = 40000 if q else 1000000
    for i in range(4):
        out.append(("factorization-range", {"lo": -2 + i * ft // 4, "hi": -2 + (i + 1) * ft // 4}))
    out.append(("factorization-built", {"examples": 600 if q else 12000}))
    out.append(("gcdlcm", {"examples": 3000 if q else 60000}))
    out.append(("faults", {"jobset": 'nt', "arg": None, "examples": 40 if tier == "quick" else 1500, "triples": 400 if tier == "quick" else 20000}))
    return out


def _interleaved_jobs():
    return {
        # a starts with composites that only the Miller-Rabin rounds reject; b ends with a full-length primality proof
        "a": lambda: [NT.is_prime(1231 * 1237), NT.is_prime(3215031751), NT.is_prime(1000003), NT.next_prime(1300),
                      NT.factorization(2 * 3 * 1237 * 1237), NT.gcd(12, 18, 30), NT.lcm([4, 6, 10])],
        "b": lambda: [NT.gcd([35, 49]), NT.lcm(3, 5, 7), NT.factorization(1231 * 1249 * 7), NT.next_prime(7919),
                      NT.is_prime(1000001), NT.is_prime(1000003), NT.is_prime(2147483647)],
    }


def history(ctx):
    """results are functions of the argument alone: numbers that share large prime factors (or are related
    in other ways) asked one after the other, in several orders, each compared with the reference"""
    big = [1000003, 1299709, 15485863]
    mid = [1231, 1249, 1277, 1279]
    seqs = []
    for P in big:
        for q in mid:
            seqs.append([2 * P, q * P, q, P, q * q * P, 3 * q, P * P, q * P])
            seqs.append([q * P, 2 * P, 7 * q * P, P])
    seqs.append([1231 * 1237, 1231, 1237, 1231 * 1237 * 1249, 1249 * 1231])
    seqs.append([big[0] * big[1], big[1] * big[2], big[0] * big[2], big[2]])
    for seq in seqs:
        for n in seq + seq[::-1]:
            check_factorization(ctx, n, RN.factor(n))
            check_is_prime(ctx, n, RN.is_prime(n), why="history")
            w = n + 1
            while not RN.is_prime(w):
                w += 1
            check_next_prime(ctx, n, w)
    ctx.sample({"fn": "history", "note": "numbers sharing prime factors above the small-prime table, asked in several orders"})


def run_unit(ctx, name, **kw):
    if name == "faults":
        from . import faults
        faults.run_set(ctx, **kw)
        return
    if name == "history":
        history(ctx)
        return
    if name == "interleaved":
        from .purity import interleaved_pure
        interleaved_pure(ctx, "numbertheory", [NT], _interleaved_jobs(), kw["stride"], max_schedules=kw["max"])
        return
    if name == "is_prime-range":
        lo, hi = kw["lo"], kw["hi"]
        flags = RN.sieve_flags(max(hi, 2))
        for n in range(lo, hi):
            check_is_prime(ctx, n, n >= 2 and bool(flags[n]), enum=True)
        ctx.exhausted("is_prime: every integer in [-5, 2^%d)" % (17 if ctx.tier == "quick" else 20))
        ctx.sample({"fn": "is_prime", "range": [lo, hi]})
    elif name == "is_prime-adversarial":
        for n, why in sorted(adversarial_composites().items()):
            check_is_prime(ctx, n, RN.is_prime(n), why=why)
        for n in KNOWN_BIG_PRIMES:
            check_is_prime(ctx, n, True, why="known-big-prime")
        for n in list(range(-300, 0)) + [-65521, -65535, -65536, -65537, -65551, -(1 << 16) - 15, -(1 << 17) + 1,
                                         -10 ** 6, -(1 << 32), -(1 << 64) - 13, -(2 ** 127 - 1)]:
            check_is_prime(ctx, n, False, why="negative")
        # prime factors of the published deterministic base sets (a base that is a multiple of n must not
        # make a prime n look composite) and the bases themselves
        bases = [2, 3, 5, 7, 11, 13, 17, 19, 23, 29, 31, 37, 41, 61, 73, 325, 9375, 28178, 450775, 9780504,
                 1795265022, 31, 336781006125, 9639812373923155, 4230279247111683200, 14694767155120705706,
                 16641139526367750375, 350, 3958281543, 2, 2570940, 211991001, 3749873356, 2, 75088, 642735, 203659041,
                 3613982119, 725270293939359937, 3569819667048198375, 15, 7363882082, 992620450144556]
        special = set()
        for b0 in bases:
            for pr, _e in RN.factor(b0) if b0 < 10 ** 13 else []:
                special.add(pr)
            for dlt in (-1, 0, 1):
                special.add(b0 + dlt)
        special |= {299210837, 407521, 14051, 193, 73}
        for n in sorted(special):
            if 1 < n < 2 ** 64:
                check_is_prime(ctx, n, RN.is_prime(n), why="mr-base-related")
        for kk in range(11, 64):
            base = 1 << kk
            cnt = 0
            n = base
            while cnt < 3:
                n += 1
                if RN.is_prime(n):
                    check_is_prime(ctx, n, True, why="prime-after-2^k")
                    cnt += 1
            n = base
            cnt = 0
            while cnt < 3:
                n -= 1
                if RN.is_prime(n):
                    check_is_prime(ctx, n, True, why="prime-before-2^k")
                    cnt += 1
        for c in gen.NAMED:
            d = gen.named(c)
            check_is_prime(ctx, d.p, True, why="curve-prime")
            check_is_prime(ctx, d.n, True, why="curve-order")
            check_is_prime(ctx, d.p * d.n, False, why="curve-product")
            check_is_prime(ctx, d.p * d.p, False, why="curve-square")
        ctx.sample({"fn": "is_prime", "n": PSI[-1], "why": "psi_9..11"})
        ctx.sample({"fn": "is_prime", "n": CARMICHAEL[-1], "why": "carmichael"})
    elif name == "is_prime-random":
        def body(c, n):
            check_is_prime(c, n, RN.is_prime(n), why="random")
            c.sample({"fn": "is_prime", "n": n})
        strat = st.one_of(
            st.integers(2 ** 20, 2 ** 64), st.integers(2 ** 31, 2 ** 33),
            st.integers(2 ** 63, 2 ** 64 - 1), st.integers(2 ** 20, 2 ** 24),
            # odd numbers coprime to 2310 are the ones that reach Miller-Rabin
            st.integers(2 ** 10, 2 ** 58).map(lambda k: 2310 * k + 1),
            st.integers(2 ** 10, 2 ** 58).map(lambda k: 2310 * k + 13),
        )
        run_hypothesis(ctx, "isp", strat, body, kw["examples"])
    elif name == "next_prime-range":
        lo, hi = kw["lo"], kw["hi"]
        primes = RN.sieve(hi + 2000)
        import bisect
        for n in range(lo, hi):
            want = primes[bisect.bisect_right(primes, n)]
            check_next_prime(ctx, n, want, enum=True)
        ctx.exhausted("next_prime: every start in range")
        ctx.sample({"fn": "next_prime", "range": [lo, hi]})
    elif name == "next_prime-random":
        def body(c, n):
            w = n + 1
            while not RN.is_prime(w):
                w += 1
            check_next_prime(c, n, w)
            c.sample({"fn": "next_prime", "n": n})
        run_hypothesis(ctx, "np", st.one_of(st.integers(2 ** 13, 2 ** 40), st.integers(2 ** 13, 2 ** 20)),
                       body, kw["examples"])
    elif name == "factorization-range":
        for n in range(kw["lo"], kw["hi"]):
            check_factorization(ctx, n, RN.factor(n) if n >= 2 else [], enum=True)
        ctx.exhausted("factorization: every n in range")
        ctx.sample({"fn": "factorization", "range": [kw["lo"], kw["hi"]]})
    elif name == "factorization-built":
        primes = RN.sieve(200000)
        beyond = [q for q in primes if 1229 < q < 1400] + [10007, 99991, 199999]
        for q in beyond:
            for m in (1, 2, 6, 1229, 1223 * 1229):
                check_factorization(ctx, m * q * q, RN.factor(m * q * q))
                check_factorization(ctx, m * q ** 3, RN.factor(m * q ** 3))
            check_factorization(ctx, q * beyond[(beyond.index(q) + 1) % len(beyond)],
                                RN.factor(q * beyond[(beyond.index(q) + 1) % len(beyond)]))
        # very high powers of a prime (float logarithms lose exactness beyond ~2^2950)
        for kk in (1000, 2954, 2955, 2956, 2957, 2958, 2960, 3005, 4096, 5000):
            check_factorization(ctx, (1 << kk) * 3, [(2, kk), (3, 1)])
            check_factorization(ctx, 1 << kk, [(2, kk)])
        check_factorization(ctx, 3 ** 2000 * 5, [(3, 2000), (5, 1)])
        check_factorization(ctx, (1 << 3005) * 1231 * 1231, [(2, 3005), (1231, 2)])
        for q in (1223, 1229):
            check_factorization(ctx, q * q, [(q, 2)])
            check_factorization(ctx, q * 1231, sorted([(q, 1), (1231, 1)]))

        def body(c, picks):
            f = {}
            for i, e in picks:
                p = primes[i % len(primes)]
                f[p] = f.get(p, 0) + e
            n = 1
            for p, e in f.items():
                n *= p ** e
            # keep the cofactor beyond the small-prime table within trial-division reach
            big = [p for p in f if p > 1229]
            rest = 1
            for p in big:
                rest *= p ** f[p]
            if rest > 10 ** 11:
                return
            check_factorization(c, n, sorted(f.items()))
            c.sample({"fn": "factorization", "n": n})
        strat = st.lists(st.tuples(st.one_of(st.integers(0, 250), st.integers(0, 17983)), st.integers(1, 4)),
                         min_size=1, max_size=6)
        run_hypothesis(ctx, "facb", strat, body, kw["examples"])
    elif name == "gcdlcm":
        small = st.one_of(st.integers(1, 200), st.integers(1, 1 << 70),
                          st.builds(lambda a, b: a * b, st.integers(1, 1 << 20), st.sampled_from([1, 2, 6, 12, 2310, 1 << 32])))
        strat = st.one_of(st.lists(small, min_size=1, max_size=6),
                          st.lists(st.one_of(st.just(0), small), min_size=1, max_size=6))

        def body(c, xs):
            check_gcdlcm(c, xs)
            c.sample({"fn": "gcdlcm", "xs": xs})
        run_hypothesis(ctx, "gl", strat, body, kw["examples"])
    else:
        raise ValueError(name)


def replay(ctx, case):
    if case.get("kind") == "fault-history":
        from . import faults
        faults.replay(ctx, case)
        return
    if case.get("fn") == "history" or case.get("why") == "history":
        history(ctx)
        return
    if case.get("kind") == "interleaved":
        from .purity import interleaved_pure
        interleaved_pure(ctx, "numbertheory", [NT], _interleaved_jobs(), 1, max_schedules=4000)
        return
    fn = case["fn"]
    if fn == "is_prime":
        check_is_prime(ctx, case["n"], RN.is_prime(case["n"]))
    elif fn == "next_prime":
        n = case["n"]
        w = max(n + 1, 2)
        while not RN.is_prime(w):
            w += 1
        check_next_prime(ctx, n, w)
    elif fn == "factorization":
        n = case["n"]
        check_factorization(ctx, n, RN.factor(n) if n >= 2 else [])
    else:
        check_gcdlcm(ctx, case["xs"])
