"""C17 - secrets and nonces drawn from entropy: range, determinism,
freshness, exact uniformity."""
import hashlib
import itertools

from hypothesis import strategies as st

from .. import gen
from ..ref import dsa as rdsa
from ..ref import ec as rec
from ..runner import run_hypothesis, exc_sig

from ecdsa import util as U
from ecdsa import SigningKey
from ecdsa.ecdsa import RSZeroError

RULE = (
    "For every order n in a range the entropy callable is scripted: the size of the first request "
    "is recorded and EVERY value of that first chunk (1-2 bytes) is enumerated, followed by a fixed "
    "tail; a draw is 'determined' when it consumed only the first chunk. Oracle: determined draws "
    "hit every v in [1,n-1] equally often and nothing outside (exact uniformity), and for sampled "
    "rejected first chunks the same holds over every second chunk. The same enumeration runs through "
    "SigningKey.generate(toy curve) (scalar d) and sign_digest(entropy=) (nonce recovered as "
    "(e+rd)/s, RSZeroError draws accounted exactly). Hypothesis streams on the 17 curve orders and "
    "random orders: adversarial prefixes (all-zero, finite all-ones, encodings of n-2,n-1,n,2^bits-1) "
    "with oracle range + determinism + freshness (second draw == fresh draw on the suffix). Seed "
    "helpers: deterministic and in [1,n-1]. Default entropy (os.urandom): on tiny curves every scalar and every nonce of "
    "[1,n-1] must occur within a few thousand draws (coupon-collector false-alarm probability < 2^-100) and a forked "
    "child must not repeat the parent's next keys; falsy entropy callables are honoured like truthy ones. Non-trivial = a first chunk that is rejected, or maps to "
    "1 or n-1, or an order of the form 2^k+-{0,1,2}, or any adversarial/production stream; distinct by "
    "(order, stream) - enumerated without repetition."
)
ASSUMPTIONS = [
    "the sampler asks its entropy callable for fixed-size chunks and either accepts or rejects each "
    "(rejection sampling, as the property statement says); the algorithm itself is not pinned",
    "randrange_from_seed__truncate_bytes/_bits are not anchored by the property and not tested",
]


class Script:
    """entropy callable: first chunk scripted, then a deterministic tail"""

    def __init__(self, chunks, tail_seed=b"tail"):
        self.chunks = list(chunks)
        self.calls = []
        self.tail_seed = tail_seed
        self.consumed = 0

    def __call__(self, n):
        i = len(self.calls)
        self.calls.append(n)
        self.consumed += n
        if i < len(self.chunks):
            c = self.chunks[i]
            if c is None:
                raise _NeedSize(n)
            if len(c) != n:
                raise _NeedSize(n)
            return c
        return hashlib.shake_128(self.tail_seed + bytes([i & 255])).digest(n)


class _NeedSize(Exception):
    def __init__(self, n):
        self.n = n


def first_size(fn):
    """size of the first entropy request made by fn(entropy)"""
    s = Script([None])
    try:
        fn(s)
    except _NeedSize as e:
        return e.n
    raise AssertionError("no entropy requested")


def second_size(fn, first):
    s = Script([first, None])
    try:
        fn(s)
    except _NeedSize as e:
        return e.n
    except Exception:
        # the draw ended without a second request (or failed): the enumeration of first chunks reports it
        return None
    return None


def enumerate_draw(ctx, label, n, fn, value_of, case, expect_missing=None, max_bytes=2,
                   second_samples=2):
    """fn(entropy) performs one draw; value_of(result) -> int in [1,n-1].
    expect_missing: dict v -> True for values that legitimately never come
    back (RS-zero nonces) - their draws raise _Skip."""
    size = first_size(fn)
    if size > max_bytes:
        ctx.event("%s:first-chunk-too-large" % label)
        return
    counts = {}
    rejected = []
    skipped = 0
    outside = 0
    for t in itertools.product(range(256), repeat=size):
        chunk = bytes(t)
        s = Script([chunk])
        ctx.ev()
        try:
            v = value_of(fn(s))
        except _Skip:
            if len(s.calls) == 1:
                skipped += 1
            else:
                rejected.append(chunk)
            continue
        except Exception as e:
            ctx.fail("%s/exception/%s" % (label, exc_sig(e)), dict(case, chunk=chunk.hex()), repr(e))
            return
        if not (1 <= v <= n - 1):
            outside += 1
            ctx.fail("%s/out-of-range/%s" % (label, "zero" if v == 0 else ("n" if v == n else "other")),
                     dict(case, chunk=chunk.hex()), "value %r for order %d" % (v, n))
            continue
        if len(s.calls) == 1:
            counts[v] = counts.get(v, 0) + 1
            ctx.case_sample(dict(case, first_chunk=chunk.hex(), value=v, entropy_requests=list(s.calls)))
            if v in (1, n - 1):
                ctx.nontrivial_enum()
        else:
            rejected.append(chunk)
            ctx.nontrivial_enum()
    ctx.event("%s:orders" % label)
    ctx.event("%s:rejected-first-chunks" % label, len(rejected))
    _flat(ctx, label + "/first", n, counts, skipped, expect_missing, case)
    # conditional distribution after a rejection: enumerate the second chunk
    for chunk in rejected[:second_samples] + rejected[-1:]:
        sz2 = second_size(fn, chunk)
        if sz2 is None or sz2 > max_bytes or (size + sz2 > 3 and ctx.tier == "quick" and n > 300):
            continue
        counts2 = {}
        skipped2 = 0
        for t in itertools.product(range(256), repeat=sz2):
            s = Script([chunk, bytes(t)])
            ctx.ev()
            try:
                v = value_of(fn(s))
            except _Skip:
                if len(s.calls) == 2:
                    skipped2 += 1
                continue
            except Exception as e:
                ctx.fail("%s/exception2/%s" % (label, exc_sig(e)), dict(case, chunk=chunk.hex()), repr(e))
                break
            if not (1 <= v <= n - 1):
                ctx.fail("%s/out-of-range-after-rejection" % label,
                         dict(case, chunk=chunk.hex(), chunk2=bytes(t).hex()), "value %r" % (v,))
                continue
            if len(s.calls) == 2:
                counts2[v] = counts2.get(v, 0) + 1
        ctx.nontrivial_enum()
        _flat(ctx, label + "/after-rejection", n, counts2, skipped2, expect_missing,
              dict(case, chunk=chunk.hex()))
    # after MANY consecutive rejections the next chunk still decides alone (no give-up / fallback path)
    if rejected and size == 1 and label == "randrange":
        chunk = rejected[-1]
        for reps in (127, 128, 129, 300):
            counts3 = {}
            for t in range(256):
                s = Script([chunk] * reps + [bytes([t])])
                ctx.ev()
                try:
                    v = value_of(fn(s))
                except Exception as e:
                    ctx.fail("%s/exception-after-%d-rejections/%s" % (label, reps, exc_sig(e)), dict(case, chunk=chunk.hex()), repr(e))
                    break
                if not (1 <= v <= n - 1):
                    ctx.fail("%s/out-of-range-after-many-rejections" % label, dict(case, chunk=chunk.hex(), reps=reps), repr(v))
                    continue
                if len(s.calls) == reps + 1:
                    counts3[v] = counts3.get(v, 0) + 1
            ctx.nontrivial_enum()
            _flat(ctx, label + "/after-%d-rejections" % reps, n, counts3, 0, expect_missing,
                  dict(case, chunk=chunk.hex(), reps=reps))


class _Skip(Exception):
    pass


def _flat(ctx, label, n, counts, skipped, expect_missing, case):
    expect_missing = expect_missing or {}
    live = [v for v in range(1, n) if v not in expect_missing]
    if not live:
        return
    cs = [counts.get(v, 0) for v in live]
    c0 = cs[0]
    if c0 == 0 or any(c != c0 for c in cs):
        lo = min(range(len(cs)), key=lambda i: cs[i])
        hi = max(range(len(cs)), key=lambda i: cs[i])
        kind = "never-drawn" if cs[lo] == 0 else "biased"
        edge = "edge" if live[lo] in (1, n - 1) or live[hi] in (1, n - 1) else "interior"
        ctx.fail("%s/not-uniform/%s/%s" % (label, kind, edge), case,
                 "order %d: value %d drawn %d times, value %d drawn %d times"
                 % (n, live[lo], cs[lo], live[hi], cs[hi]))
        return
    for v in expect_missing:
        if counts.get(v, 0):
            ctx.fail("%s/rs-zero-nonce-returned" % label, case, "k=%d" % v)
    if expect_missing and skipped != c0 * len(expect_missing):
        ctx.fail("%s/rs-zero-accounting" % label, case,
                 "%d draws raised RSZeroError, expected %d" % (skipped, c0 * len(expect_missing)))


def check_randrange_order(ctx, n):
    case = {"kind": "randrange-enum", "n": n}
    enumerate_draw(ctx, "randrange", n, lambda ent: U.randrange(n, ent), lambda v: v, case)


def check_generate_toy(ctx, cname):
    d = gen.dom(cname)
    case = {"kind": "generate-enum", "curve": cname}

    def fn(ent):
        return SigningKey.generate(curve=d.lib, entropy=ent)

    def val(sk):
        dd = sk.privkey.secret_multiplier
        Q = rec.mul(d.c, dd, d.G) if 1 <= dd < d.n else None
        if Q is not None:
            pt = sk.verifying_key.pubkey.point
            if (pt.x(), pt.y()) != Q:
                raise AssertionError("public key is not d*G")
        return dd
    enumerate_draw(ctx, "generate", d.n, fn, val, case)


def check_sign_toy(ctx, cname, dd, digest):
    d = gen.dom(cname)
    n = d.n
    e = rdsa.bits2int(digest, n.bit_length())
    case = {"kind": "sign-enum", "curve": cname, "d": dd, "digest": digest.hex()}
    sk = SigningKey.from_secret_exponent(dd, curve=d.lib)
    missing = {k: True for k in range(1, n) if rdsa.sign(d.ref, dd, k, e) == "RS-ZERO"}

    def fn(ent):
        try:
            return sk.sign_digest(digest, entropy=ent, sigencode=lambda r, s, o: (r, s), allow_truncate=True)
        except RSZeroError:
            raise _Skip()

    def val(rs):
        r, s = rs
        return (e + r * dd) * pow(s, -1, n) % n
    enumerate_draw(ctx, "sign-nonce", n, fn, val, case, expect_missing=missing)


class Stream:
    """sequential reader over a finite prefix followed by a hash-derived tail"""

    def __init__(self, prefix, seed=b""):
        self.prefix = prefix
        self.seed = seed
        self.pos = 0
        self.sizes = []

    def __call__(self, n):
        self.sizes.append(n)
        out = bytearray()
        while len(out) < n:
            i = self.pos + len(out)
            if i < len(self.prefix):
                out.append(self.prefix[i])
            else:
                j = i - len(self.prefix)
                out.append(hashlib.shake_128(self.seed + (j // 64).to_bytes(4, "big")).digest(64)[j % 64])
        self.pos += n
        return bytes(out)

    def fork(self):
        s = Stream(self.prefix, self.seed)
        s.pos = self.pos
        return s


def check_stream(ctx, case):
    """range, determinism, freshness on a production-size order"""
    n = case["n"]
    prefix = bytes.fromhex(case["prefix"])
    seed = bytes.fromhex(case["seed"])
    ctx.ev()
    try:
        s1 = Stream(prefix, seed)
        v1 = U.randrange(n, s1)
        mid = s1.fork()
        v2 = U.randrange(n, s1)
        s2 = Stream(prefix, seed)
        w1 = U.randrange(n, s2)
        w2fresh = U.randrange(n, mid)
    except Exception as e:
        ctx.fail("stream/exception/%s" % exc_sig(e), case, repr(e))
        return
    for v in (v1, v2):
        if not (1 <= v <= n - 1):
            ctx.fail("stream/out-of-range", case, "value %r" % (v,))
    if v1 != w1:
        ctx.fail("stream/not-deterministic", case, "%r vs %r" % (v1, w1))
    if v2 != w2fresh:
        ctx.fail("stream/second-draw-not-fresh", case, "%r vs %r" % (v2, w2fresh))
    ctx.event("stream:%s" % case.get("shape", "?"))
    ctx.nontrivial(("stream", n, case["prefix"], case["seed"]))


def check_key_stream(ctx, case):
    """generate + sign from one stream: replayable, in range, fresh"""
    d = gen.dom(case["curve"])
    n = d.n
    prefix = bytes.fromhex(case["prefix"])
    seed = bytes.fromhex(case["seed"])
    msg = bytes.fromhex(case["msg"])
    ctx.ev()
    try:
        s1 = Stream(prefix, seed)
        sk1 = SigningKey.generate(curve=d.lib, entropy=s1)
        mid = s1.fork()
        try:
            sig1 = sk1.sign(msg, entropy=s1)
        except RSZeroError:
            ctx.event("keystream:rs-zero")
            return
        s2 = Stream(prefix, seed)
        sk2 = SigningKey.generate(curve=d.lib, entropy=s2)
        sig2 = sk2.sign(msg, entropy=s2)
        sig_fresh = sk1.sign(msg, entropy=mid)
    except Exception as e:
        ctx.fail("keystream/exception/%s" % exc_sig(e), case, repr(e))
        return
    dd = sk1.privkey.secret_multiplier
    if not (1 <= dd <= n - 1):
        ctx.fail("keystream/d-out-of-range", case, repr(dd))
        return
    if sk1.to_string() != sk2.to_string() or sig1 != sig2:
        ctx.fail("keystream/not-replayable", case, "")
    if sig1 != sig_fresh:
        ctx.fail("keystream/nonce-not-from-fresh-bytes", case, "")
    # recover the nonce and check its range and the signature itself
    l = len(sig1) // 2
    r, s = int.from_bytes(sig1[:l], "big"), int.from_bytes(sig1[l:], "big")
    hf = hashlib.sha1
    e = rdsa.bits2int(hf(msg).digest()[: (n.bit_length() + 7) // 8], n.bit_length())
    k = (e + r * dd) * pow(s, -1, n) % n
    if not (1 <= k <= n - 1) or rdsa.sign(d.ref, dd, k, e) != (r, s):
        ctx.fail("keystream/nonce-out-of-range-or-wrong-signature", case, "k=%r" % (k,))
    ctx.event("keystream")
    ctx.nontrivial(("keystream", case["curve"], case["prefix"], case["seed"]))


def check_seed_helpers(ctx, n, seed):
    case = {"kind": "seed", "n": n, "seed": seed.hex() if isinstance(seed, bytes) else seed,
            "seed_is_bytes": isinstance(seed, bytes)}
    for fname in ("randrange_from_seed__trytryagain", "randrange_from_seed__overshoot_modulo"):
        ctx.ev()
        f = getattr(U, fname)
        try:
            a = f(seed, n)
            b = f(seed, n)
        except Exception as e:
            ctx.fail("seed/%s/exception/%s" % (fname, exc_sig(e)), case, repr(e))
            continue
        if a != b:
            ctx.fail("seed/%s/not-deterministic" % fname, case, "")
        if not (1 <= a <= n - 1):
            ctx.fail("seed/%s/out-of-range" % fname, case, repr(a))
    ctx.ev()
    try:
        p1 = U.PRNG(seed)
        p2 = U.PRNG(seed)
        x = p1(7) + p1(40)
        y = p2(47)
        if x != y or len(x) != 47:
            ctx.fail("seed/PRNG/not-a-deterministic-stream", case, "")
        v = U.randrange(n, U.PRNG(seed))
        if not (1 <= v <= n - 1):
            ctx.fail("seed/PRNG-randrange/out-of-range", case, repr(v))
    except Exception as e:
        ctx.fail("seed/PRNG/exception/%s" % exc_sig(e), case, repr(e))
    ctx.nontrivial(("seed", n, case["seed"]))


class FalsyStream(Stream):
    """an entropy callable that happens to be falsy (e.g. a pool object that is currently empty)"""

    def __bool__(self):
        return False

    def __len__(self):
        return 0


def check_falsy_entropy(ctx, n, prefix, seed):
    case = {"kind": "falsy-entropy", "n": n, "prefix": prefix.hex(), "seed": seed.hex()}
    ctx.ev()
    try:
        a = U.randrange(n, FalsyStream(prefix, seed))
        b = U.randrange(n, Stream(prefix, seed))
        s1 = FalsyStream(prefix, seed)
        c = U.randrange(n, s1)
    except Exception as e:
        ctx.fail("falsy-entropy/exception/%s" % exc_sig(e), case, repr(e))
        return
    if a != b or a != c or s1.pos == 0:
        ctx.fail("falsy-entropy/caller-stream-ignored", case, "drawn %r / %r, truthy twin draws %r, bytes taken %d" % (a, c, b, s1.pos))
    ctx.nontrivial(("falsy", n, case["prefix"], case["seed"]))


def check_default_entropy(ctx, cname, draws):
    """entropy=None (os.urandom): every scalar / nonce of a tiny curve must occur; after a fork the two
    processes must not continue with the same bytes.  Statistical, with a false-alarm probability far below
    2^-100 (coupon collector bound printed in the evidence)."""
    import os
    d = gen.dom(cname)
    n = d.n
    case = {"kind": "default-entropy", "curve": cname, "draws": draws}
    seen_d, seen_k = set(), set()
    sk = SigningKey.from_secret_exponent(n // 2, curve=d.lib)
    dd = n // 2
    e = 5 % n
    try:
        for i in range(draws):
            ctx.ev()
            seen_d.add(SigningKey.generate(curve=d.lib).privkey.secret_multiplier)
            try:
                r, s = sk.sign_number(e)
            except RSZeroError:
                continue
            seen_k.add((e + r * dd) * pow(s, -1, n) % n)
            seen_d.add(U.randrange(n))
    except Exception as ex:
        ctx.fail("default-entropy/exception/%s" % exc_sig(ex), case, repr(ex))
        return
    legit_missing = {k for k in range(1, n) if rdsa.sign(d.ref, dd, k, e) == "RS-ZERO"}
    miss_d = set(range(1, n)) - seen_d
    miss_k = set(range(1, n)) - seen_k - legit_missing
    bad_d = [v for v in seen_d if not 1 <= v < n]
    if miss_d or bad_d:
        ctx.fail("default-entropy/scalar-range-not-covered", case, "never drawn: %r, outside: %r" % (sorted(miss_d), bad_d))
    if miss_k:
        ctx.fail("default-entropy/nonce-range-not-covered", case, "nonces never drawn: %r" % sorted(miss_k))
    ctx.nontrivial(("default-entropy", cname, draws))
    # fork: parent and child must not draw the same values afterwards
    big = gen.dom("NIST256p").lib
    SigningKey.generate(curve=big)
    rfd, wfd = os.pipe()
    pid = os.fork()
    if pid == 0:
        try:
            os.close(rfd)
            v = [SigningKey.generate(curve=big).privkey.secret_multiplier for _ in range(3)]
            os.write(wfd, repr(v).encode())
        finally:
            os._exit(0)
    os.close(wfd)
    mine = [SigningKey.generate(curve=big).privkey.secret_multiplier for _ in range(3)]
    data = b""
    while True:
        chunk = os.read(rfd, 65536)
        if not chunk:
            break
        data += chunk
    os.close(rfd)
    os.waitpid(pid, 0)
    ctx.ev()
    theirs = eval(data.decode()) if data else []
    if set(mine) & set(theirs):
        ctx.fail("default-entropy/same-values-after-fork", {"kind": "default-entropy", "curve": cname, "draws": draws},
                 "parent and forked child generated the same 256-bit private key")
    ctx.nontrivial(("fork", cname))


def special_orders(limit):
    out = set()
    k = 1
    while (1 << k) - 2 <= limit:
        for d in (-2, -1, 0, 1, 2):
            v = (1 << k) + d
            if 2 <= v <= limit:
                out.add(v)
        k += 1
    return sorted(out)


def st_stream_case():
    orders = st.one_of(
        st.sampled_from([gen.named(c).n for c in gen.NAMED]),
        st.integers(2, 1 << 600),
        st.builds(lambda k, d: max(2, (1 << k) + d), st.integers(1, 600), st.integers(-2, 2)),
    )

    def mk(n, shape, reps, rnd):
        bits = max(1, (n - 2).bit_length())
        nb = bits // 8 + 1
        def enc(v, align):
            v = max(0, v)
            if align:  # value left-aligned to the bit string the sampler reads
                v <<= (8 * nb - bits)
            return (v % (1 << (8 * nb))).to_bytes(nb, "big")
        if shape == 0:
            prefix = bytes(nb * reps)
        elif shape == 1:
            prefix = b"\xff" * (nb * reps)
        elif shape in (2, 3, 4, 5, 6):
            v = {2: n - 2, 3: n - 1, 4: n, 5: (1 << bits) - 1, 6: n - 3}[shape]
            prefix = enc(v, rnd & 1) * reps
        else:
            prefix = b""
        return {"kind": "stream", "n": n, "prefix": prefix.hex(), "seed": rnd.to_bytes(8, "big").hex(),
                "shape": ["zeros", "ones", "n-2", "n-1", "n", "2^bits-1", "n-3", "random"][shape]}

    return st.builds(mk, orders, st.integers(0, 7), st.integers(1, 3), st.integers(0, 2 ** 64 - 1))


def units(tier, seed):
    q = tier == "quick"
    top = 258 if q else 4096
    orders = set(range(2, top + 1)) | set(special_orders(4100))
    if q:
        orders |= set(range(300, 4096, 397))
    orders = sorted(orders)
    out = [("interleaved", {"stride": 1, "max": 3000 if q else 30000}), ("seed-history", {})]
    ns = 14
    for i in range(ns):
        out.append(("randrange-enum", {"orders": orders[i::ns]}))
    out.append(("generate-toy", {"curves": ["t13", "t23a", "t127", "t251a"] + ([] if q else ["t257", "t1021a", "t4093"])}))
    out.append(("sign-toy", {"curves": ["t13", "t23a"] + ([] if q else ["t29", "t61", "t127", "t251a"])}))
    out.append(("streams", {"examples": 2500 if q else 50000}))
    out.append(("key-streams", {"examples": 60 if q else 1500}))
    out.append(("seed-helpers", {"top": 600 if q else 4096}))
    out.append(("default-entropy", {"curve": "t13-twin", "draws": 1500 if q else 20000}))
    out.append(("default-entropy", {"curve": "t23a-twin", "draws": 2500 if q else 30000}))
    out.append(("falsy-entropy", {"examples": 300 if q else 5000}))
    out.append(("faults", {"jobset": 'rand', "arg": None, "examples": 40 if tier == "quick" else 1500, "triples": 400 if tier == "quick" else 20000}))
    out.append(("faults", {"jobset": 'keys', "arg": 't23a', "examples": 40 if tier == "quick" else 1500, "triples": 400 if tier == "quick" else 20000}))
    return out


class _OnesThenTail:
    """entropy: all-ones chunks (always rejected) for the first `ones` requests, then a deterministic stream"""

    def __init__(self, ones, seed):
        self.ones, self.seed, self.i = ones, seed, 0

    def __call__(self, n):
        self.i += 1
        if self.i <= self.ones:
            return b"\xff" * n
        return hashlib.shake_128(self.seed + bytes([self.i])).digest(n)


def _interleaved_jobs():
    n1, n2 = gen.named("NIST256p").n, gen.named("SECP160r1").n

    def a():
        return [U.randrange(n1, entropy=_OnesThenTail(2, b"a1")), U.randrange(300, entropy=_OnesThenTail(1, b"a2")),
                U.randrange_from_seed__trytryagain(b"seed-a", n1), U.randrange(n1, entropy=_OnesThenTail(0, b"a3"))]

    def b():
        return [U.randrange(n2, entropy=_OnesThenTail(1, b"b1")), U.randrange(257, entropy=_OnesThenTail(3, b"b2")),
                U.randrange_from_seed__trytryagain(b"seed-b", n2), U.randrange(n2, entropy=_OnesThenTail(0, b"b3"))]
    return {"a": a, "b": b}


def seed_history(ctx):
    """the seed helpers are functions of (seed, order): the values computed in this process after a long and
    mixed history must equal the ones a fresh interpreter computes in the opposite order"""
    import subprocess
    import sys
    import json as _json
    names = ["NIST256p", "SECP256k1", "BRAINPOOLP256r1", "BRAINPOOLP224r1", "NIST224p", "NIST192p", "BRAINPOOLP192r1", "SECP160r1",
             "BRAINPOOLP160r1"]
    orders = [256, 300, 257, 255, 511, 512, 513, 1000, 65536, 65537, 70000, 2 ** 64, 2 ** 64 - 59] + [gen.named(nm).n for nm in names]
    seeds = [b"", b"a", b"seed-1", b"\xff" * 40]
    funcs = ["randrange_from_seed__trytryagain", "randrange_from_seed__overshoot_modulo", "randrange_from_seed__truncate_bytes",
             "randrange_from_seed__truncate_bits"]
    here = {}
    for fn in funcs:
        for o in orders:
            for sd in seeds:
                ctx.ev()
                try:
                    here[(fn, o, sd.hex())] = int(getattr(U, fn)(sd, o))
                except Exception as e:
                    here[(fn, o, sd.hex())] = "EXC " + type(e).__name__
    prog = ("import sys, json; sys.path.insert(0, %r); from ecdsa import util as U\n"
            "funcs=%r; orders=%r; seeds=%r; out=[]\n"
            "for fn in reversed(funcs):\n"
            "  for o in reversed(orders):\n"
            "    for sd in reversed(seeds):\n"
            "      try: v=int(getattr(U, fn)(bytes.fromhex(sd), o))\n"
            "      except Exception as e: v='EXC '+type(e).__name__\n"
            "      out.append([fn, o, sd, v])\n"
            "print(json.dumps(out))\n") % (sys.path[0] if sys.path[0].endswith("src") else [p for p in sys.path if p.endswith("/src")][0],
                                         funcs, orders, [s.hex() for s in seeds])
    r = subprocess.run([sys.executable, "-c", prog], capture_output=True, text=True, timeout=300)
    if r.returncode != 0:
        raise RuntimeError("fresh interpreter failed: " + r.stderr[-500:])
    for fn, o, sd, v in _json.loads(r.stdout.strip().splitlines()[-1]):
        if here[(fn, o, sd)] != v:
            ctx.fail("seed-history/%s/depends-on-earlier-calls" % fn, {"kind": "seed-history", "fn": fn, "order": o, "seed": sd},
                     "after this process's history: %r, in a fresh interpreter (opposite order): %r" % (here[(fn, o, sd)], v))
        ctx.nontrivial_enum()
    ctx.sample({"kind": "seed-history", "orders": len(orders), "seeds": len(seeds), "helpers": funcs})


def run_unit(ctx, name, **kw):
    if name == "faults":
        from . import faults
        faults.run_set(ctx, **kw)
        return
    if name == "seed-history":
        seed_history(ctx)
        return
    if name == "interleaved":
        from .purity import interleaved_pure
        interleaved_pure(ctx, "util", [U], _interleaved_jobs(), kw["stride"], max_schedules=kw["max"])
        return
    if name == "randrange-enum":
        for n in kw["orders"]:
            check_randrange_order(ctx, n)
        ctx.sample({"kind": "randrange-enum", "orders": kw["orders"][:6], "first_chunk": "all values"})
        ctx.exhausted("randrange: every value of the first entropy chunk for each listed order")
    elif name == "generate-toy":
        for c in kw["curves"]:
            check_generate_toy(ctx, c)
            ctx.sample({"kind": "generate-enum", "curve": c, "n": gen.dom(c).n})
    elif name == "sign-toy":
        for c in kw["curves"]:
            d = gen.dom(c)
            for dd in sorted({1, d.n // 2, d.n - 1}):
                for dig in (b"\x00", b"\x2a", b"\xff\xff"):
                    check_sign_toy(ctx, c, dd, dig)
            ctx.sample({"kind": "sign-enum", "curve": c, "d": d.n - 1, "digest": "ffff"})
    elif name == "streams":
        def body(c, case):
            check_stream(c, case)
            c.sample(case)
        run_hypothesis(ctx, "streams", st_stream_case(), body, kw["examples"])
    elif name == "key-streams":
        curves = ["t23a", "t251a", "t65521b", "SECP112r1", "SECP160r1", "NIST192p", "NIST256p", "NIST521p",
                  "BRAINPOOLP320r1"]

        def body(c, v):
            ci, prefix, rnd, msg = v
            case = {"kind": "keystream", "curve": curves[ci % len(curves)], "prefix": prefix.hex(),
                    "seed": rnd.to_bytes(8, "big").hex(), "msg": msg.hex()}
            check_key_stream(c, case)
            c.sample(case)
        strat = st.tuples(st.integers(0, 100),
                          st.one_of(st.binary(max_size=4), st.sampled_from([b"\x00" * 80, b"\xff" * 70])),
                          st.integers(0, 2 ** 64 - 1), st.binary(max_size=20))
        run_hypothesis(ctx, "keystreams", strat, body, kw["examples"])
    elif name == "default-entropy":
        check_default_entropy(ctx, kw["curve"], kw["draws"])
        ctx.sample({"kind": "default-entropy", "curve": kw["curve"], "draws": kw["draws"],
                    "note": "os.urandom path: all of [1,n-1] must occur; independence after fork"})
    elif name == "falsy-entropy":
        def body(c, v):
            n, prefix, rnd = v
            check_falsy_entropy(c, n, prefix, rnd.to_bytes(8, "big"))
        strat = st.tuples(st.one_of(st.integers(2, 1 << 20), st.sampled_from([gen.named(x).n for x in gen.NAMED])),
                          st.binary(max_size=6), st.integers(0, 2 ** 64 - 1))
        run_hypothesis(ctx, "falsy", strat, body, kw["examples"])
    elif name == "seed-helpers":
        seeds = [b"", b"seed", "seed", "0", b"\x00" * 32, b"\xff" * 64, "a much longer seed string " * 4]
        for n in list(range(2, kw["top"] + 1)) + [gen.named(c).n for c in gen.NAMED]:
            for sd in (seeds if n < 40 or n > 5000 else seeds[:2]):
                check_seed_helpers(ctx, n, sd)
        ctx.sample({"kind": "seed", "n": 2, "seed": "seed"})
    else:
        raise ValueError(name)


def replay(ctx, case):
    if case.get("kind") == "fault-history":
        from . import faults
        faults.replay(ctx, case)
        return
    k = case["kind"]
    if k == "interleaved":
        from .purity import interleaved_pure
        interleaved_pure(ctx, "util", [U], _interleaved_jobs(), 1, max_schedules=3000)
        return
    if k == "seed-history":
        seed_history(ctx)
        return
    if k == "randrange-enum":
        check_randrange_order(ctx, case["n"])
    elif k == "generate-enum":
        check_generate_toy(ctx, case["curve"])
    elif k == "sign-enum":
        check_sign_toy(ctx, case["curve"], case["d"], bytes.fromhex(case["digest"]))
    elif k == "stream":
        check_stream(ctx, case)
    elif k == "keystream":
        check_key_stream(ctx, case)
    elif k == "default-entropy":
        check_default_entropy(ctx, case["curve"], case["draws"])
    elif k == "falsy-entropy":
        check_falsy_entropy(ctx, case["n"], bytes.fromhex(case["prefix"]), bytes.fromhex(case["seed"]))
    elif k == "seed":
        sd = bytes.fromhex(case["seed"]) if case.get("seed_is_bytes") else case["seed"]
        check_seed_helpers(ctx, case["n"], sd)
