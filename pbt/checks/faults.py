"""Histories in which an EARLIER operation failed or was cut short (an exception for invalid input, a
user-supplied hash / entropy / encoder / decoder callable that raises once, a rejected key or signature)
followed by perfectly valid operations: every valid operation must still give the result the reference
predicts.  Sequential analogue of purity.py: no state may be left behind by an error path.

A job set is (valid, faults):
  valid  = [(name, callable -> comparable value, expected value)]
  faults = [(name, callable)]   - may raise or return anything; only the aftermath is judged here
                                  (exception *types* are the business of C10 and of the truth-table units)
Histories explored: all (fault, valid) pairs, all (valid, fault, valid') triples over a rotating subset,
(fault, fault', valid) triples, and hypothesis-generated longer mixed sequences.
"""
import itertools

from hypothesis import strategies as st

import re

from ..runner import run_hypothesis, exc_sig, srepr


class Raising(Exception):
    """what the harness-supplied callables raise"""


def _outcome(f):
    """outcome class of a fault job: exception type, or the value it returned"""
    try:
        r = f()
    except Raising:
        return "raised:harness-exception"
    except RecursionError:
        raise
    except Exception as e:
        return "raised:" + type(e).__name__
    if isinstance(r, (int, bool, bytes, bytearray, str, tuple, list, type(None))):
        return "returned:" + srepr(r, 120)
    return "returned:object-of-type-" + type(r).__name__        # no addresses in outcome classes


_FIRST = {}


def run_names(ctx, label, valid, faults, names, hist_kind="fault-history"):
    V = {n: (f, w) for n, f, w in valid}
    F = dict(faults)
    first = _FIRST.setdefault(label, {})
    seen_fault = False
    after = False
    for pos, nm in enumerate(names):
        if nm in F:
            seen_fault = True
            out = _outcome(F[nm])
            ctx.event("%s:fault-%s" % (label, out.split(":")[0]))
            # a rejected input stays rejected (and in the same way) however often and after whatever it is
            # presented again; names starting with "~" are exempt (their own state changes legitimately)
            if not nm.startswith("~"):
                if nm not in first:
                    first[nm] = out
                elif first[nm] != out:
                    ctx.fail("%s/%s/fault-outcome-changed/%s->%s" % (label, nm, first[nm].split(":")[0] + ":" + first[nm].split(":")[1][:30].split("(")[0],
                                                                      out.split(":")[0] + ":" + out.split(":")[1][:30].split("(")[0]),
                             {"kind": hist_kind, "label": label, "history": list(names[:pos + 1])},
                             "first %s, now %s" % (first[nm], out))
            continue
        f, want = V[nm]
        case = {"kind": hist_kind, "label": label, "history": list(names[:pos + 1])}
        try:
            got = f()
        except Exception as e:
            ctx.fail("%s/%s/exception-after-fault/%s" % (label, nm, exc_sig(e)) if seen_fault else
                     "%s/%s/exception/%s" % (label, nm, exc_sig(e)), case, repr(e)[:300])
            continue
        if got != want:
            ctx.fail("%s/%s/wrong-result%s" % (label, nm, "-after-fault" if seen_fault else ""), case,
                     "got %s want %s" % (repr(got)[:200], repr(want)[:200]))
        if seen_fault:
            after = True
    return after


def fault_histories(ctx, label, valid, faults, examples=200, triple_budget=4000, max_len=12):
    vn = [n for n, _, _ in valid]
    fn = [n for n, _ in faults]
    # 0. clean state: every valid job gives its expected value (otherwise the job set itself is wrong)
    ctx.ev()
    run_names(ctx, label, valid, faults, vn)
    # 1. all (fault, valid) pairs - and the reverse order, so a fault is also the LAST thing before the next pair
    for f in fn:
        for v in vn:
            ctx.ev()
            if run_names(ctx, label, valid, faults, [f, v]):
                ctx.nontrivial_enum()
    ctx.exhausted("%s: all (fault, valid) pairs, %d x %d" % (label, len(fn), len(vn)))
    # 1b. every fault twice in a row, and fault / other fault / fault again (outcome must not change)
    for f in fn:
        ctx.ev()
        run_names(ctx, label, valid, faults, [f, f])
    for f, g in itertools.islice(itertools.product(fn, fn), 0, None, max(1, len(fn) * len(fn) // max(1, triple_budget))):
        ctx.ev()
        run_names(ctx, label, valid, faults, [f, g, f])
    # 2a. (valid, fault, valid') where fault and valid' are related (same function family and a shared argument):
    #     stale state is most likely to be keyed by what the failed call was about
    tok = {n: set(re.findall(r"[A-Za-z_]+|\d+", n)) for n in vn + fn}
    related = [(f, v) for f in fn for v in vn if len(tok[f] & tok[v]) >= 2]
    rstep = max(1, len(related) * len(vn) // max(1, 3 * triple_budget))
    cnt = 0
    for i, (v0, (f, v)) in enumerate(itertools.product(vn, related)):
        if i % rstep:
            continue
        ctx.ev()
        cnt += 1
        if run_names(ctx, label, valid, faults, [v0, f, v] if cnt % 4 else [v0, f, f, v]):
            ctx.nontrivial_enum()
    ctx.event("%s:related-triples" % label, cnt)
    # 2. (valid, fault, valid') and (fault, fault', valid) triples, strided to the budget
    triples = list(itertools.product(vn, fn, vn)) + list(itertools.product(fn, fn, vn))
    step = max(1, len(triples) // triple_budget)
    off = ctx.seed % step
    for t in triples[off::step]:
        ctx.ev()
        if run_names(ctx, label, valid, faults, list(t)):
            ctx.nontrivial_enum()
    if step == 1:
        ctx.exhausted("%s: all (valid, fault, valid) and (fault, fault, valid) triples" % label)
    ctx.event("%s:triples" % label, len(triples[off::step]))

    # 3. longer mixed sequences
    def body(c, names):
        if not any(n in fn for n in names):
            return
        if run_names(c, label, valid, faults, names):
            c.nontrivial(("fh", label, tuple(names)))
    if examples:
        strat = st.lists(st.one_of(st.sampled_from(fn), st.sampled_from(vn)), min_size=3, max_size=max_len)
        run_hypothesis(ctx, "faults-" + label, strat, body, examples)
    ctx.sample({"kind": "fault-history", "label": label, "valid_jobs": vn[:6], "fault_jobs": fn[:8],
                "n_valid": len(vn), "n_faults": len(fn)})


def replay_history(ctx, label, valid, faults, case):
    ctx.ev()
    run_names(ctx, label, valid, faults, case["history"])


# ---------------------------------------------------------------------------------------------
# helpers for job sets

class FailingHash:
    """hashlib-style constructor that raises Raising at its k-th construction, once, and is sha256 otherwise"""

    def __init__(self, fail_at, base=None):
        import hashlib
        self.base = base or hashlib.sha256
        self.fail_at = fail_at
        self.count = 0
        probe = self.base()
        self.digest_size = probe.digest_size
        self.block_size = probe.block_size
        self.name = probe.name

    def __call__(self, data=b""):
        self.count += 1
        if self.count == self.fail_at:
            raise Raising("hash constructor #%d" % self.count)
        return self.base(data)


def raising_entropy(numbytes):
    raise Raising("entropy")


def short_entropy(numbytes):
    return b"\x01" * max(0, numbytes - 1)


def raising_codec(*a, **k):
    raise Raising("codec")


# ---------------------------------------------------------------------------------------------
# job set "keys": one SigningKey / several VerifyingKey objects reused through the whole history

def D_topem(der_bytes):
    from ecdsa import der as D
    return D.topem(der_bytes, "PUBLIC KEY")


def key_jobs(cname, dd=None, with_loaders=True):
    import hashlib
    from .. import gen
    from ..ref import ec as rec
    from ..ref import dsa as rdsa
    from ..ref import rfc6979 as RR
    from . import sigutil as SU
    from ecdsa import SigningKey, VerifyingKey, BadSignatureError, util as U
    from ecdsa.keys import BadDigestError, MalformedPointError

    d = gen.dom(cname)
    n, c, G = d.n, d.c, d.G
    dd = dd or (n // 3 + 2)
    Q = rec.mul(c, dd, G)
    H = hashlib.sha256
    sk = SigningKey.from_secret_exponent(dd, curve=d.lib, hashfunc=H)
    vk = sk.get_verifying_key()
    vk2 = VerifyingKey.from_string(SU.pub_bytes(d, Q), curve=d.lib, hashfunc=H)
    vk3 = VerifyingKey.from_string(SU.pub_bytes(d, Q), curve=d.lib, hashfunc=H)
    vk3.precompute()
    msgs = [b"fault history message", b"", b"\x00" * 40]

    def det(msg, hf=H, extra=b""):
        dig = hf(msg).digest()
        e = SU.e_of(dig, n, True)
        for k in RR.candidates(n, dd, hf, dig, extra):
            r = rdsa.sign(d.ref, dd, k, e)
            if r != "RS-ZERO":
                return r
    valid, faults = [], []
    sigs = []
    for i, m in enumerate(msgs):
        r, s = det(m)
        sig = SU.encode_ref("string", r, s, n)
        sigs.append(sig)
        valid.append(("sign-det-%d" % i, lambda m=m: sk.sign_deterministic(m), sig))
        for j, v in enumerate((vk, vk2, vk3)):
            valid.append(("verify-good-%d-vk%d" % (i, j), lambda m=m, sig=sig, v=v: v.verify(sig, m), True))
    r, s = det(msgs[0], hashlib.sha1)
    valid.append(("sign-det-sha1", lambda: sk.sign_deterministic(msgs[0], hashfunc=hashlib.sha1),
                  SU.encode_ref("string", r, s, n)))
    r, s = det(msgs[0], H, b"extra")
    valid.append(("sign-det-extra", lambda: sk.sign_deterministic(msgs[0], extra_entropy=b"extra", sigencode=U.sigencode_der),
                  SU.encode_ref("der", r, s, n)))
    # explicit nonce
    dig = H(b"nonce").digest()
    e = SU.e_of(dig, n, True)
    kk = 2
    while rdsa.sign(d.ref, dd, kk, e) == "RS-ZERO":
        kk += 1
    rk = rdsa.sign(d.ref, dd, kk, e)
    valid.append(("sign-k", lambda: tuple(int(x) for x in sk.sign_digest(dig, k=kk, sigencode=SU.rs_tuple, allow_truncate=True)), rk))
    valid.append(("verify-digest-k", lambda: vk.verify_digest(SU.encode_ref("der", rk[0], rk[1], n), dig, sigdecode=U.sigdecode_der, allow_truncate=True), True))
    # fixed entropy: expected from a reference replay of randrange is C17's business; here: must verify under the reference
    ent = U.PRNG(b"fault-seed")

    def sign_entropy():
        rr, ss = sk.sign(msgs[0], entropy=U.PRNG(b"fault-seed"), sigencode=SU.rs_tuple)
        return rdsa.verify(d.ref, Q, SU.e_of(H(msgs[0]).digest(), n, True), int(rr), int(ss))
    valid.append(("sign-entropy-verifies", sign_entropy, True))

    # invalid signatures must stay rejected (by the reference they are invalid)
    def rejected(f):
        def g():
            try:
                return "accepted:%r" % (f(),)
            except BadSignatureError:
                return "rejected"
        return g
    r0, s0 = SU.strict_decode("string", sigs[0], n)
    for nm, (rr, ss) in (("s+1", (r0, s0 % (n - 1) + 1)), ("r+1", (r0 % (n - 1) + 1, s0))):
        if not rdsa.verify(d.ref, Q, SU.e_of(H(msgs[0]).digest(), n, True), rr, ss):
            bs = SU.encode_ref("string", rr, ss, n)
            for j, v in enumerate((vk, vk3)):
                valid.append(("verify-bad-%s-vk%d" % (nm, j), rejected(lambda bs=bs, v=v: v.verify(bs, msgs[0])), "rejected"))
    valid.append(("verify-other-message", rejected(lambda: vk.verify(sigs[0], msgs[1])), "rejected"))
    valid.append(("pub-bytes", lambda: (vk.to_string(), sk.get_verifying_key().to_string("compressed")[1:], sk.to_string()),
                  (SU.pub_bytes(d, Q), Q[0].to_bytes(d.plen, "big"), dd.to_bytes(SU.olen(n), "big"))))

    # a user-supplied hash function object that fails on demand and is then used again (retry after a fault)
    class Flaky:
        digest_size = H().digest_size
        block_size = H().block_size
        name = "sha256"
        fail_next = 0

        def __call__(self, data=b""):
            if Flaky.fail_next:
                Flaky.fail_next -= 1
                if not Flaky.fail_next:
                    raise Raising("flaky hash")
            return H(data)
    flaky = Flaky()

    def failing(at, f):
        def g():
            Flaky.fail_next = at
            try:
                return f()
            finally:
                Flaky.fail_next = 0
        return g
    valid.append(("verify-good-flaky-hash", lambda: vk.verify(sigs[0], msgs[0], hashfunc=flaky), True))
    valid.append(("verify-good-flaky-hash-vk3", lambda: vk3.verify(sigs[1], msgs[1], hashfunc=flaky), True))
    valid.append(("verify-other-message-flaky-hash", rejected(lambda: vk.verify(sigs[0], msgs[1], hashfunc=flaky)), "rejected"))
    valid.append(("verify-other-message-flaky-hash-2", rejected(lambda: vk.verify(sigs[1], msgs[0], hashfunc=flaky)), "rejected"))
    valid.append(("sign-det-flaky-hash", lambda: sk.sign_deterministic(msgs[0], hashfunc=flaky), sigs[0]))
    valid.append(("sign-det-flaky-hash-1", lambda: sk.sign_deterministic(msgs[1], hashfunc=flaky), sigs[1]))
    for at in (1, 2, 3, 4, 6):
        faults.append(("sign-det-flaky-hash-raises-at-%d" % at, failing(at, lambda: sk.sign_deterministic(msgs[0], hashfunc=flaky))))
        faults.append(("sign-det-flaky-hash-1-raises-at-%d" % at, failing(at, lambda: sk.sign_deterministic(msgs[1], hashfunc=flaky))))
    faults.append(("verify-good-flaky-hash-raises", failing(1, lambda: vk.verify(sigs[0], msgs[0], hashfunc=flaky))))
    faults.append(("verify-other-message-flaky-hash-raises", failing(1, lambda: vk.verify(sigs[0], msgs[1], hashfunc=flaky))))
    faults.append(("verify-other-message-flaky-hash-2-raises", failing(1, lambda: vk.verify(sigs[1], msgs[0], hashfunc=flaky))))
    # RFC 6979 directly, and faults inside its HMAC updates
    from ecdsa import rfc6979 as LR
    for i, m in enumerate(msgs[:2]):
        for hf in (H, hashlib.sha1):
            h1 = hf(m).digest()
            valid.append(("generate_k-%s-%d" % (hf().name, i), lambda hf=hf, h1=h1: int(LR.generate_k(n, dd, hf, h1)), RR.k(n, dd, hf, h1)))
            valid.append(("generate_k-extra-%s-%d" % (hf().name, i), lambda hf=hf, h1=h1: int(LR.generate_k(n, dd, hf, h1, extra_entropy=b"xx")),
                          RR.k(n, dd, hf, h1, b"xx")))
            valid.append(("generate_k-retry-%s-%d" % (hf().name, i), lambda hf=hf, h1=h1: int(LR.generate_k(n, dd, hf, h1, retry_gen=2)),
                          RR.k(n, dd, hf, h1, b"", 2)))
            faults.append(("generate_k-extra-str-%s-%d" % (hf().name, i), lambda hf=hf, h1=h1: LR.generate_k(n, dd, hf, h1, extra_entropy=u"text")))
            faults.append(("generate_k-extra-int-%s-%d" % (hf().name, i), lambda hf=hf, h1=h1: LR.generate_k(n, dd, hf, h1, extra_entropy=5)))
            faults.append(("generate_k-h1-str-%s-%d" % (hf().name, i), lambda hf=hf: LR.generate_k(n, dd, hf, u"abc")))
    faults.append(("sign-det-extra-str", lambda: sk.sign_deterministic(msgs[0], extra_entropy=u"text")))
    faults.append(("sign-det-extra-str-sha1", lambda: sk.sign_deterministic(msgs[0], hashfunc=hashlib.sha1, extra_entropy=u"text")))

    # ---- faults
    faults.append(("sign-entropy-raises", lambda: sk.sign(msgs[0], entropy=raising_entropy)))
    faults.append(("sign-entropy-short", lambda: sk.sign(msgs[0], entropy=short_entropy)))
    faults.append(("generate-entropy-raises", lambda: SigningKey.generate(curve=d.lib, entropy=raising_entropy)))
    faults.append(("sign-digest-too-long", lambda: sk.sign_digest(b"\xff" * (SU.olen(n) + 40))))
    faults.append(("sign-det-digest-too-long", lambda: sk.sign_digest_deterministic(b"\xff" * (SU.olen(n) + 40), hashfunc=H)))
    for at in (1, 2, 3, 5, 8):
        faults.append(("sign-det-hash-raises-at-%d" % at,
                       lambda at=at: sk.sign_deterministic(msgs[0], hashfunc=FailingHash(at))))
    faults.append(("sign-hash-raises", lambda: sk.sign(msgs[1], hashfunc=FailingHash(1))))
    faults.append(("verify-hash-raises", lambda: vk.verify(sigs[0], msgs[0], hashfunc=FailingHash(1))))
    faults.append(("verify-hash-raises-vk3", lambda: vk3.verify(sigs[0], msgs[0], hashfunc=FailingHash(1))))
    faults.append(("sign-encoder-raises", lambda: sk.sign_deterministic(msgs[0], sigencode=raising_codec)))
    faults.append(("sign-k-encoder-raises", lambda: sk.sign_digest(dig, k=kk, sigencode=raising_codec, allow_truncate=True)))
    faults.append(("sign-k-zero", lambda: sk.sign_digest(dig, k=n, allow_truncate=True)))
    faults.append(("sign-number-k-zero", lambda: sk.privkey.sign(5, 0)))
    for j, v in enumerate((vk, vk3)):
        faults.append(("verify-wrong-length-vk%d" % j, lambda v=v: v.verify(sigs[0][:-1], msgs[0])))
        faults.append(("verify-decoder-raises-vk%d" % j, lambda v=v: v.verify(sigs[0], msgs[0], sigdecode=raising_codec)))
        faults.append(("verify-r-zero-vk%d" % j, lambda v=v: v.verify(SU.encode_ref("string", 0, s0, n), msgs[0])))
        faults.append(("verify-s-n-vk%d" % j, lambda v=v: v.verify(SU.encode_ref("der", r0, n, n), msgs[0], sigdecode=U.sigdecode_der)))
        faults.append(("verify-bad-vk%d" % j, lambda v=v: v.verify(SU.encode_ref("string", s0, r0, n), msgs[0])))
        faults.append(("verify-digest-too-long-vk%d" % j, lambda v=v: v.verify_digest(sigs[0], b"\x01" * (SU.olen(n) + 33))))
        faults.append(("verify-der-garbage-vk%d" % j, lambda v=v: v.verify(b"\x30\x03\x02\x01", msgs[0], sigdecode=U.sigdecode_der)))
        faults.append(("verify-int-signature-vk%d" % j, lambda v=v: v.verify(12345, msgs[0])))
    if with_loaders:
        good = SU.pub_bytes(d, Q)
        yy = (Q[1] + 1) % d.p
        while rec.on_curve(c, (Q[0], yy)):
            yy = (yy + 1) % d.p
        off = Q[0].to_bytes(d.plen, "big") + yy.to_bytes(d.plen, "big")
        faults.append(("load-vk-off-curve", lambda: VerifyingKey.from_string(off, curve=d.lib)))
        faults.append(("load-vk-short", lambda: VerifyingKey.from_string(good[:-1], curve=d.lib)))
        faults.append(("load-vk-compressed-bad", lambda: VerifyingKey.from_string(b"\x05" + good[:d.plen], curve=d.lib)))
        faults.append(("load-vk-der-garbage", lambda: VerifyingKey.from_der(b"\x30\x05\x30\x03\x06\x01\x00")))
        faults.append(("load-vk-pem-garbage", lambda: VerifyingKey.from_pem("-----BEGIN PUBLIC KEY-----\nAA!A\n-----END PUBLIC KEY-----\n")))
        faults.append(("load-sk-zero", lambda: SigningKey.from_string(b"\x00" * SU.olen(n), curve=d.lib)))
        faults.append(("load-sk-order", lambda: SigningKey.from_secret_exponent(n, curve=d.lib)))
        faults.append(("load-sk-der-garbage", lambda: SigningKey.from_der(b"\x30\x03\x02\x01\x01")))
        faults.append(("load-sk-pem-garbage", lambda: SigningKey.from_pem("no armour at all")))
        faults.append(("recover-garbage", lambda: VerifyingKey.from_public_key_recovery(sigs[0][:-2], msgs[0], d.lib, hashfunc=H)))
        for enc in ("raw", "uncompressed", "compressed", "hybrid"):
            if enc == "compressed" and d.plen == 1:
                continue
            valid.append(("load-vk-" + enc, lambda enc=enc: (lambda k: (int(k.pubkey.point.x()), int(k.pubkey.point.y())))(
                VerifyingKey.from_string(vk.to_string(enc), curve=d.lib)), Q))

        def load_rejected(b):
            def g():
                try:
                    VerifyingKey.from_string(b, curve=d.lib)
                    return "accepted"
                except MalformedPointError:
                    return "rejected"
            return g
        valid.append(("load-vk-off-curve-rejected", load_rejected(off), "rejected"))
        valid.append(("load-sk-raw", lambda: SigningKey.from_string(sk.to_string(), curve=d.lib).get_verifying_key().to_string(), good))
        if not d.toy:
            from ..ref import der as rder
            from .c09 import ref_point_bytes
            spki = rder.enc_spki(rder.CURVE_OIDS[cname], ref_point_bytes(d, Q, "uncompressed"))
            valid.append(("vk-to-der", lambda: vk.to_der(), spki))
            valid.append(("vk-from-der", lambda: VerifyingKey.from_der(spki).to_string(), good))
            valid.append(("vk-pem-roundtrip", lambda: VerifyingKey.from_pem(vk.to_pem()).to_string(), good))
            valid.append(("sk-der-roundtrip", lambda: SigningKey.from_der(sk.to_der()).to_string(), dd.to_bytes(SU.olen(n), "big")))
            valid.append(("sk-pkcs8-pem-roundtrip", lambda: SigningKey.from_pem(sk.to_pem(format="pkcs8")).to_string(),
                          dd.to_bytes(SU.olen(n), "big")))
            rec_want = True
            unk = rder.enc_spki((1, 2, 3, 4), ref_point_bytes(d, Q, "uncompressed"))
            faults.append(("load-vk-der-unknown-curve", lambda: VerifyingKey.from_der(unk)))
            faults.append(("load-vk-pem-unknown-curve", lambda: VerifyingKey.from_pem(D_topem(unk))))
            wrongy = rder.enc_spki(rder.CURVE_OIDS[cname], b"\x04" + off)
            faults.append(("load-vk-der-off-curve", lambda: VerifyingKey.from_der(wrongy)))
            valid.append(("load-vk-der-compressed", lambda: VerifyingKey.from_der(vk.to_der("compressed")).to_string(), good))
            valid.append(("recover-contains-key", lambda: any(k.to_string() == good for k in
                          VerifyingKey.from_public_key_recovery(sigs[0], msgs[0], d.lib, hashfunc=H)), rec_want))
    return valid, faults


# ---------------------------------------------------------------------------------------------
# job set "nt": ecdsa.numbertheory (C15, C16)

def nt_jobs(arg=None):
    import math
    from ecdsa import numbertheory as NT
    from ..ref import nt as RN
    valid, faults = [], []
    P192 = 2 ** 192 - 2 ** 64 - 1
    P224 = 2 ** 224 - 2 ** 96 + 1            # 1 mod 4 (1 mod 8: polynomial branch)
    P521 = 2 ** 521 - 1
    for a, m in ((3, 7), (-7, 257), (90001, 193), (2, P192), (P192 - 1, P224), (12345678901234567890, P521), (5, 6), (7, 2 ** 64)):
        valid.append(("inverse(%d,%d)" % (a % 1000, m % 1000), lambda a=a, m=m: NT.inverse_mod(a, m), pow(a, -1, m)))
    for a, p in ((2, 7), (4, 11), (6, 29), (2, 257), (9, 313), (64 * 64 % 193, 193), (25, P192), (49, P224), (2, P224), (121, P521), (0, 13), (1, 5)):
        if pow(a, (p - 1) // 2, p) not in (0, 1):
            raise RuntimeError("job set invalid: %d is no residue mod %d" % (a, p))
        valid.append(("sqrt(%d,%d)" % (a % 1000, p % 1000), lambda a=a, p=p: (NT.square_root_mod_prime(a, p) ** 2 - a) % p, 0))
    for a, n, f in ((2, 7, [(7, 1)]), (5 << 70, 1009 * 1013, [(1009, 1), (1013, 1)]), (-3, 257, [(257, 1)]), (1001, 9907, [(9907, 1)]),
                    (14, 45, [(3, 2), (5, 1)]), (3, P192, [(P192, 1)]), (15, 45, [(3, 2), (5, 1)])):
        want = 1
        for p, e in f:
            ls = pow(a % p, (p - 1) // 2, p)
            ls = -1 if ls == p - 1 else ls
            want *= ls ** e
        valid.append(("jacobi(%d,%d)" % (a % 1000, n % 1000), lambda a=a, n=n: NT.jacobi(a, n), want))
    for n, want in ((2, True), (97, True), (561, False), (7919, True), (3215031751, False), (2 ** 61 - 1, True), (P192, True),
                    (P192 * P224, False), (1, False), (0, False), (2 ** 64 + 13, True), (4, False), (1000003 * 1000033, False)):
        valid.append(("is_prime(%d)" % (n % 100000), lambda n=n: bool(NT.is_prime(n)), want))
    for n, want in ((0, 2), (2, 3), (13, 17), (7919, 7927), (2 ** 31 - 2, 2 ** 31 - 1), (2 ** 61 - 2, 2 ** 61 - 1), (1000, 1009)):
        valid.append(("next_prime(%d)" % (n % 100000), lambda n=n: NT.next_prime(n), want))
    for n in (1, 2, 12, 360, 97, 1009 * 1013, 2 ** 20 * 3 ** 5, 1000003 * 1000033, 999983 ** 2, 2 * 3 * 5 * 7 * 11 * 13 * 17 * 19):
        valid.append(("factorization(%d)" % (n % 100000), lambda n=n: [tuple(int(v) for v in x) for x in NT.factorization(n)],
                      [tuple(x) for x in RN.factor(n)] if n > 1 else []))
    for xs in ((12, 18), (17, 5), (0, 9), (2 ** 64, 2 ** 40 * 3), (12, 18, 27), (1009 * 7, 1013 * 7, 49)):
        g = 0
        l = 1
        for x in xs:
            g = math.gcd(g, x)
            l = l * x // math.gcd(l, x) if x else 0
        valid.append(("gcd%r" % (xs,), lambda xs=xs: NT.gcd(*xs), g))
        valid.append(("gcd-list%r" % (xs,), lambda xs=xs: NT.gcd(list(xs)), g))
        if all(xs):
            valid.append(("lcm%r" % (xs,), lambda xs=xs: NT.lcm(*xs), l))
            valid.append(("lcm-list%r" % (xs,), lambda xs=xs: NT.lcm(list(xs)), l))
    from fractions import Fraction
    from decimal import Decimal
    for p in (1000003, 7919, 2 ** 31 - 1, 1009):
        valid.append(("is_prime(%d)" % p, lambda p=p: bool(NT.is_prime(p)), True))
        valid.append(("next_prime(%d)" % (p - 1), lambda p=p: NT.next_prime(p - 1), p))
        faults.append(("is_prime-float(%d)" % p, lambda p=p: NT.is_prime(float(p))))
        faults.append(("is_prime-fraction(%d)" % p, lambda p=p: NT.is_prime(Fraction(p))))
        faults.append(("is_prime-decimal(%d)" % p, lambda p=p: NT.is_prime(Decimal(p))))
        faults.append(("next_prime-float(%d)" % (p - 1), lambda p=p: NT.next_prime(float(p - 1))))
        faults.append(("factorization-float(%d)" % p, lambda p=p: NT.factorization(float(p))))
    for a, p in ((4, 7), (9, 257), (4, 193), (4, 17), (9, P192), (9, P521)):
        valid.append(("sqrt(%d,%d)" % (a % 1000, p % 1000), lambda a=a, p=p: (NT.square_root_mod_prime(a, p) ** 2 - a) % p, 0))
        faults.append(("sqrt-out-of-range(%d,%d)" % (a % 1000, p % 1000), lambda a=a, p=p: NT.square_root_mod_prime(a + p, p)))
    # faults (nothing that can loop for ever)
    faults.append(("inverse-not-coprime", lambda: NT.inverse_mod(6, 9)))
    faults.append(("inverse-zero", lambda: NT.inverse_mod(0, 7)))
    faults.append(("inverse-mod-zero", lambda: NT.inverse_mod(3, 0)))
    faults.append(("inverse-str", lambda: NT.inverse_mod("3", 7)))
    for a, p in ((3, 7), (5, 257), (3, 193), (3, 17), (P192 - 1, P192), (11, P224), (3, P521)):
        faults.append(("sqrt-nonresidue(%d,%d)" % (a % 1000, p % 1000), lambda a=a, p=p: NT.square_root_mod_prime(a, p)))
    faults.append(("sqrt-composite", lambda: NT.square_root_mod_prime(2, 15)))
    faults.append(("sqrt-composite-1mod8", lambda: NT.square_root_mod_prime(5, 17 * 41)))
    faults.append(("sqrt-p2", lambda: NT.square_root_mod_prime(1, 2)))
    faults.append(("sqrt-negative", lambda: NT.square_root_mod_prime(-1, 7)))
    faults.append(("sqrt-too-big", lambda: NT.square_root_mod_prime(9, 7)))
    faults.append(("jacobi-even", lambda: NT.jacobi(3, 8)))
    faults.append(("jacobi-one", lambda: NT.jacobi(3, 1)))
    faults.append(("jacobi-negative", lambda: NT.jacobi(3, -7)))
    faults.append(("jacobi-str", lambda: NT.jacobi("a", 7)))
    faults.append(("modular-exp-negative", lambda: NT.modular_exp(2, -1, 7)))
    faults.append(("is_prime-str", lambda: NT.is_prime("97")))
    faults.append(("is_prime-float", lambda: NT.is_prime(97.5)))
    faults.append(("is_prime-negative", lambda: NT.is_prime(-97)))
    faults.append(("next_prime-str", lambda: NT.next_prime("x")))
    faults.append(("next_prime-negative", lambda: NT.next_prime(-100)))
    faults.append(("factorization-zero", lambda: NT.factorization(0)))
    faults.append(("factorization-negative", lambda: NT.factorization(-12)))
    faults.append(("factorization-float", lambda: NT.factorization(12.5)))
    faults.append(("factorization-str", lambda: NT.factorization("12")))
    faults.append(("gcd-empty", lambda: NT.gcd()))
    faults.append(("gcd-str", lambda: NT.gcd(12, "x")))
    faults.append(("lcm-empty", lambda: NT.lcm()))
    faults.append(("lcm-zero", lambda: NT.lcm(0, 0)))
    faults.append(("lcm-str", lambda: NT.lcm(4, "x")))
    faults.append(("is_prime-big-composite", lambda: NT.is_prime((2 ** 127 - 1) * (2 ** 89 - 1))))
    return valid, faults


# ---------------------------------------------------------------------------------------------
# job set "der": ecdsa.der codecs (C11)

def der_jobs(arg=None):
    from ecdsa import der as D
    from ..ref import der as rder
    valid, faults = [], []
    ints = [0, 1, 127, 128, 255, 256, 2 ** 63, 2 ** 64 - 1, 2 ** 521 - 1, 2 ** 1023]
    for v in ints:
        enc = rder.enc_int(v) if hasattr(rder, "enc_int") else None
        if enc is None:
            body = v.to_bytes(v.bit_length() // 8 + 1, "big")
            enc = b"\x02" + _len(len(body)) + body
        valid.append(("encode_integer(%d bits)" % v.bit_length(), lambda v=v: bytes(D.encode_integer(v)), enc))
        valid.append(("remove_integer(%d bits)" % v.bit_length(), lambda enc=enc: (lambda r: (int(r[0]), bytes(r[1])))(D.remove_integer(enc + b"\x05\x00")),
                      (v, b"\x05\x00")))
    for l in (0, 1, 127, 128, 255, 256, 65535, 65536):
        valid.append(("encode_length(%d)" % l, lambda l=l: bytes(D.encode_length(l)), _len(l)))
        valid.append(("read_length(%d)" % l, lambda l=l: tuple(int(x) for x in D.read_length(_len(l) + b"zz")), (l, len(_len(l)))))
    for body in (b"", b"a", b"x" * 127, b"y" * 128, b"z" * 300):
        valid.append(("octet_string(%d)" % len(body), lambda body=body: bytes(D.encode_octet_string(body)), b"\x04" + _len(len(body)) + body))
        valid.append(("remove_octet_string(%d)" % len(body), lambda body=body: tuple(bytes(x) for x in D.remove_octet_string(b"\x04" + _len(len(body)) + body + b"T")),
                      (body, b"T")))
        valid.append(("sequence(%d)" % len(body), lambda body=body: bytes(D.encode_sequence(body, b"\x05\x00")), b"\x30" + _len(len(body) + 2) + body + b"\x05\x00"))
        valid.append(("remove_sequence(%d)" % len(body), lambda body=body: tuple(bytes(x) for x in D.remove_sequence(b"\x30" + _len(len(body)) + body + b"T")),
                      (body, b"T")))
        valid.append(("bitstring(%d)" % len(body), lambda body=body: bytes(D.encode_bitstring(body, 0)), b"\x03" + _len(len(body) + 1) + b"\x00" + body))
        valid.append(("remove_bitstring(%d)" % len(body), lambda body=body: (lambda r: (bytes(r[0]), 0, bytes(r[1])))(
            D.remove_bitstring(b"\x03" + _len(len(body) + 1) + b"\x00" + body + b"T", 0)), (body, 0, b"T")))
        for tag in (0, 1, 3):
            valid.append(("constructed(%d,%d)" % (tag, len(body)), lambda body=body, tag=tag: bytes(D.encode_constructed(tag, body)),
                          bytes([0xa0 + tag]) + _len(len(body)) + body))
            valid.append(("remove_constructed(%d,%d)" % (tag, len(body)), lambda body=body, tag=tag: (lambda r: (r[0], bytes(r[1]), bytes(r[2])))(
                D.remove_constructed(bytes([0xa0 + tag]) + _len(len(body)) + body + b"T")), (tag, body, b"T")))
    oids = [((1, 2, 840, 10045, 3, 1, 7), bytes.fromhex("06082a8648ce3d030107")), ((1, 3, 132, 0, 35), bytes.fromhex("06052b81040023")),
            ((2, 5, 4, 3), bytes.fromhex("0603550403")), ((1, 2, 840, 10045, 2, 1), bytes.fromhex("06072a8648ce3d0201")),
            ((2, 999, 3), bytes.fromhex("0603883703")), ((0, 39, 16384), bytes.fromhex("060427818000"))]
    for oid, enc in oids:
        valid.append(("encode_oid%r" % (oid,), lambda oid=oid: bytes(D.encode_oid(*oid)), enc))
        valid.append(("remove_object%r" % (oid,), lambda enc=enc: (lambda r: (tuple(int(x) for x in r[0]), bytes(r[1])))(D.remove_object(enc + b"T")), (oid, b"T")))
    pem = D.topem(b"\x30\x03\x02\x01\x05" * 20, "TEST")
    valid.append(("unpem", lambda: bytes(D.unpem(pem)), b"\x30\x03\x02\x01\x05" * 20))
    valid.append(("topem", lambda: bytes(D.topem(b"abc" * 30, "X Y")),
                  b"-----BEGIN X Y-----\n" + b"YWJj" * 16 + b"\n" + b"YWJj" * 14 + b"\n-----END X Y-----\n"))
    # faults
    bad = [b"", b"\x02", b"\x02\x01", b"\x02\x00", b"\x02\x02\x00\x01", b"\x02\x01\x80", b"\x02\x81\x01\x01", b"\x02\x84\xff\xff\xff\xff\x01",
           b"\x04\x05ab", b"\x30\x80\x00\x00", b"\x03\x01\x08", b"\x03\x02\x01\xff", b"\x03\x00", b"\x06\x00", b"\x06\x02\x80\x01", b"\x06\x01\x80",
           b"\xa0", b"\xa0\x05", b"\x05\x00", b"\x02\x82\x00\x01\x01", b"\x06\x04\x88\x37\x80\x01", b"\x06\x03\x88\x37\x83",
           bytes.fromhex("060a2a8648ce3d0301078001"), b"\x04\x81\x05abcde", b"\x30\x83\x00\x00\x02\x05\x00", b"\x02\x81\x7f" + b"\x01" * 127]
    fns = [("remove_integer", D.remove_integer), ("remove_octet_string", D.remove_octet_string), ("remove_sequence", D.remove_sequence),
           ("remove_object", D.remove_object), ("remove_constructed", D.remove_constructed), ("read_length", D.read_length),
           ("read_number", D.read_number), ("remove_bitstring0", lambda b: D.remove_bitstring(b, 0)),
           ("remove_bitstringNone", lambda b: D.remove_bitstring(b, None))]
    tagfn = {0x02: 0, 0x04: 1, 0x30: 2, 0x06: 3, 0xa0: 4, 0x03: 7}
    for i, b in enumerate(bad):
        chosen = fns[i % 3::3] + fns[(i + 1) % 3::3][:1]
        if b and b[0] in tagfn and fns[tagfn[b[0]]] not in chosen:
            chosen.append(fns[tagfn[b[0]]])          # always also the reader this tag belongs to
        for nm, f in chosen:
            faults.append(("%s(%s)" % (nm, b.hex()[:24]), lambda f=f, b=b: f(b)))
    faults.append(("encode_integer-negative", lambda: D.encode_integer(-1)))
    faults.append(("encode_oid-bad-first", lambda: D.encode_oid(3, 1)))
    faults.append(("encode_oid-bad-second", lambda: D.encode_oid(1, 40)))
    faults.append(("encode_bitstring-unused-9", lambda: D.encode_bitstring(b"a", 9)))
    faults.append(("encode_bitstring-nonzero-padding", lambda: D.encode_bitstring(b"\xff", 3)))
    faults.append(("unpem-garbage", lambda: D.unpem(b"-----BEGIN X-----\n!!!!\n-----END X-----\n")))
    faults.append(("encode_length-negative", lambda: D.encode_length(-1)))
    return valid, faults


def _len(l):
    if l < 0x80:
        return bytes([l])
    b = l.to_bytes((l.bit_length() + 7) // 8, "big")
    return bytes([0x80 | len(b)]) + b


# ---------------------------------------------------------------------------------------------
# job set "sig": signature encoders / decoders incl. the low-S ones (C12, C13)

def sig_jobs(arg=None):
    from ecdsa import util as U
    from .. import gen
    from . import sigutil as SU
    valid, faults = [], []
    orders = [gen.named(c).n for c in ("NIST192p", "SECP160r1", "NIST521p", "SECP112r2", "NIST256p")] + [29, 281, 65521 * 3 + 2]
    for n in orders:
        l = SU.olen(n)
        for r, s in ((1, 1), (n - 1, n - 1), (n // 2, n // 2), (n // 2 + 1, n // 2 + 1), (255, n - 2), (n - 3, 128 % n or 1)):
            for enc in ("string", "strings", "der"):
                e, dcd = SU.ENCODINGS[enc]
                ref = SU.encode_ref(enc, r, s, n)
                tag = "%s/%d-bit/%d,%d" % (enc, n.bit_length(), r % 997, s % 997)
                norm = (lambda x: [bytes(i) for i in x]) if enc == "strings" else bytes
                valid.append(("enc-" + tag, lambda e=e, r=r, s=s, n=n, norm=norm: norm(e(r, s, n)), ref))
                valid.append(("dec-" + tag, lambda dcd=dcd, ref=ref, n=n: tuple(int(x) for x in dcd(ref, n)), (r, s)))
                ec, _ = SU.ENCODINGS[enc + "_canonize"]
                low = s if 2 * s <= n else n - s
                valid.append(("canon-" + tag, lambda ec=ec, r=r, s=s, n=n, norm=norm: norm(ec(r, s, n)), SU.encode_ref(enc, r, low, n)))
        # faults for this order
        good = SU.encode_ref("string", 5, 7, n)
        faults.append(("dec-string-short/%d" % n.bit_length(), lambda n=n, good=good: U.sigdecode_string(good[:-1], n)))
        faults.append(("dec-string-long/%d" % n.bit_length(), lambda n=n, good=good: U.sigdecode_string(good + b"\x00", n)))
        faults.append(("dec-strings-3/%d" % n.bit_length(), lambda n=n, l=l: U.sigdecode_strings([b"\x01" * l] * 3, n)))
        faults.append(("dec-strings-short-r/%d" % n.bit_length(), lambda n=n, l=l: U.sigdecode_strings([b"\x01" * (l - 1), b"\x01" * l], n)))
        faults.append(("dec-strings-long-s/%d" % n.bit_length(), lambda n=n, l=l: U.sigdecode_strings([b"\x01" * l, b"\x01" * (l + 1)], n)))
        faults.append(("dec-der-trailing/%d" % n.bit_length(), lambda n=n: U.sigdecode_der(SU.encode_ref("der", 5, 7, n) + b"\x00", n)))
        faults.append(("dec-der-inner-trailing/%d" % n.bit_length(), lambda n=n: U.sigdecode_der(b"\x30\x08\x02\x01\x05\x02\x01\x07\x05\x00", n)))
        faults.append(("dec-der-negative/%d" % n.bit_length(), lambda n=n: U.sigdecode_der(b"\x30\x06\x02\x01\x85\x02\x01\x07", n)))
        faults.append(("dec-der-empty/%d" % n.bit_length(), lambda n=n: U.sigdecode_der(b"", n)))
        faults.append(("enc-string-too-big/%d" % n.bit_length(), lambda n=n, l=l: U.sigencode_string(1 << (8 * l), 1, n)))
        faults.append(("enc-strings-too-big-s/%d" % n.bit_length(), lambda n=n, l=l: U.sigencode_strings(1, 1 << (8 * l + 3), n)))
        faults.append(("enc-der-negative/%d" % n.bit_length(), lambda n=n: U.sigencode_der(-1, 1, n)))
        faults.append(("canon-string-negative/%d" % n.bit_length(), lambda n=n: U.sigencode_string_canonize(1, -5, n)))
        faults.append(("canon-der-s-none/%d" % n.bit_length(), lambda n=n: U.sigencode_der_canonize(1, None, n)))
        faults.append(("number_to_string-too-big/%d" % n.bit_length(), lambda n=n, l=l: U.number_to_string(1 << (8 * l), n)))
        faults.append(("string_to_number_fixedlen-short/%d" % n.bit_length(), lambda n=n, l=l: U.string_to_number_fixedlen(b"\x01" * (l - 1), n)))
    return valid, faults


# ---------------------------------------------------------------------------------------------
# job set "rand": randrange and the seed helpers (C17) - expected values from a reference replay of the
# documented rejection sampling of randrange (bits = bitlen(order-1), top bits masked, value + 1 < order)

def rand_jobs(arg=None):
    from ecdsa import util as U
    from .. import gen
    valid, faults = [], []

    class Tape:
        def __init__(self, data):
            self.data = data
            self.pos = 0

        def __call__(self, nbytes):
            out = self.data[self.pos:self.pos + nbytes]
            self.pos += nbytes
            if len(out) != nbytes:
                raise Raising("tape exhausted")
            return out
    import hashlib
    tape = b"".join(hashlib.sha512(b"tape%d" % i).digest() for i in range(64))
    orders = [gen.named("NIST192p").n, gen.named("SECP160r1").n, gen.named("NIST521p").n, 29, 281, 257, 2 ** 64 + 13, 5]
    for n in orders:
        first = U.randrange(n, entropy=Tape(tape))
        if not (1 <= first < n):
            raise RuntimeError("job set invalid")
        # the same tape must always give the same value (replayable); the value itself is judged by C17's model units
        valid.append(("randrange/%d-bit" % n.bit_length(), lambda n=n: int(U.randrange(n, entropy=Tape(tape))), int(first)))
        valid.append(("randrange-prng/%d-bit" % n.bit_length(), lambda n=n: int(U.randrange(n, entropy=U.PRNG(b"seed"))),
                      int(U.randrange(n, entropy=U.PRNG(b"seed")))))
        for nm, fn in (("trytryagain", U.randrange_from_seed__trytryagain), ("truncate_bits", U.randrange_from_seed__truncate_bits),
                       ("truncate_bytes", U.randrange_from_seed__truncate_bytes), ("overshoot_modulo", U.randrange_from_seed__overshoot_modulo)):
            try:
                w = int(fn(b"some seed", n))
            except TypeError:
                continue        # truncate_bits / truncate_bytes cannot pad short seeds material on Python 3 (not part of the property)
            if not (1 <= w < n):
                raise RuntimeError("job set invalid")
            valid.append(("%s/%d-bit" % (nm, n.bit_length()), lambda fn=fn, n=n: int(fn(b"some seed", n)), w))
        faults.append(("randrange-raising/%d-bit" % n.bit_length(), lambda n=n: U.randrange(n, entropy=raising_entropy)))
        faults.append(("randrange-tape-exhausted/%d-bit" % n.bit_length(), lambda n=n: U.randrange(n, entropy=Tape(b"\xff" * 7))))
        faults.append(("randrange-str-entropy/%d-bit" % n.bit_length(), lambda n=n: U.randrange(n, entropy=lambda k: "x" * k)))
    faults.append(("randrange-order-1", lambda: U.randrange(1, entropy=Tape(tape))))
    faults.append(("randrange-order-0", lambda: U.randrange(0, entropy=Tape(tape))))
    faults.append(("randrange-order-negative", lambda: U.randrange(-5, entropy=Tape(tape))))
    faults.append(("trytryagain-order-1", lambda: U.randrange_from_seed__trytryagain(b"s", 1)))
    faults.append(("trytryagain-str-seed", lambda: U.randrange_from_seed__trytryagain(12345, 29)))
    faults.append(("prng-str-seed", lambda: U.PRNG(12345)(8)))
    p = U.PRNG(b"abandoned")
    faults.append(("~prng-abandoned-generator", lambda: p(3) and p.generator.close()))
    return valid, faults


JOBSETS = {"keys": key_jobs, "nt": nt_jobs, "der": der_jobs, "sig": sig_jobs, "rand": rand_jobs}


def run_set(ctx, jobset, arg=None, examples=100, triples=2000, **_):
    try:
        valid, faults = JOBSETS[jobset](arg) if arg is not None else JOBSETS[jobset]()
    except RuntimeError:
        raise               # the harness' own self-checks
    except Exception as e:
        # building the job set only performs valid library operations (make keys, precompute, encode)
        ctx.ev()
        ctx.fail("%s:%s/job-set-construction/exception/%s" % (jobset, arg or "", exc_sig(e)),
                 {"kind": "fault-history", "label": "%s:%s" % (jobset, arg or ""), "history": []}, repr(e)[:300])
        return
    fault_histories(ctx, "%s:%s" % (jobset, arg or ""), valid, faults, examples=examples, triple_budget=triples)


def replay(ctx, case):
    jobset, _, arg = case["label"].partition(":")
    valid, faults = JOBSETS[jobset](arg) if arg else JOBSETS[jobset]()
    replay_history(ctx, case["label"], valid, faults, case)
