"""C01 - every signature the library makes verifies under the matching key."""
import hashlib
import itertools

from hypothesis import strategies as st

from .. import gen
from ..ref import dsa as rdsa
from ..ref import ec as rec
from ..runner import run_hypothesis, exc_sig
from . import sigutil as SU
from .c17 import Stream

from ecdsa import BadSignatureError
from ecdsa.ecdsa import RSZeroError, Signature

RULE = (
    "Cases are tuples (curve, d, payload, hash, nonce source, signature encoding, entry point, key reload "
    "route, allow_truncate). (1) structured sweep: every named curve x 11 hash functions x 6 encodings x 5 "
    "entry points (pairwise-covering subset in the quick tier) with boundary d and k; (2) hypothesis: free "
    "combinations on the 17 curves and on toy prime-order curves, nonce from explicit k (boundary biased), a "
    "scripted entropy stream, or RFC 6979 with optional extra entropy, verifying key and signing key "
    "optionally reloaded through raw/uncompressed/compressed/hybrid bytes, DER, PEM, ssleay/PKCS#8; (3) "
    "toy exhaustive: ALL d, ALL k in [1,n-1], all 1-byte digests on toy curves. Oracle: verify* returns "
    "exactly True (sign_number pairs: Public_key.verifies and the reference verifier); RSZeroError is "
    "accepted only where the reference says r=0 or s=0 and never from deterministic entry points. "
    "Non-trivial = boundary d or k, digest bits > bitlen(n), bitlen(n) % 8 != 0, low-S encoder that flipped "
    "s, a reload, a short/wide hash, entropy or RFC 6979 nonce; distinct by the full tuple."
)
ASSUMPTIONS = [
    "digests are non-empty; explicit k in [1,n-1]",
    "a digest longer than the order (in bytes) is signed/verified with allow_truncate=True on both sides",
]

ENTRIES = ["sign", "sign_digest", "sign_deterministic", "sign_digest_deterministic", "sign_number"]
PAYLOAD_TYPES = ["bytes", "bytearray", "memoryview", "memoryview-writable", "array-B", "array-H", "view-cast-I",
                 "array-b", "view-cast-b"]


def as_type(data, kind):
    """the same octets handed over as another documented bytes-like object"""
    import array
    if kind == "bytearray":
        return bytearray(data)
    if kind == "memoryview":
        return memoryview(data)
    if kind == "memoryview-writable":
        return memoryview(bytearray(data))
    if kind == "array-B":
        return array.array("B", data)
    if kind == "array-b":
        return array.array("b", [x - 256 if x > 127 else x for x in data])      # signed char items
    if kind == "view-cast-b":
        return memoryview(bytearray(data)).cast("b")
    if kind == "array-H" and len(data) % 2 == 0 and data:
        return array.array("H", data)
    if kind == "view-cast-I" and len(data) % 4 == 0 and data:
        return memoryview(bytearray(data)).cast("I")
    return data


def check_case(ctx, case, enum=False, cache=None):
    d = gen.dom(case["curve"])
    n = d.n
    dd = case["d"]
    hname = case["hash"]
    hf = gen.HASHES[hname]
    encname = case["enc"]
    enc, dec = SU.ENCODINGS[encname]
    entry = case["entry"]
    payload = bytes.fromhex(case["payload"])
    if case.get("payload_repeat"):
        payload = bytes.fromhex(case["payload_repeat"][0]) * case["payload_repeat"][1]
    nonce = case["nonce"]          # ["k", int] | ["entropy", hexprefix, hexseed] | ["rfc", hexextra]
    at = case.get("at", True)
    vroute = case.get("vk_route", "none")
    sroute = case.get("sk_route", "none")
    ctx.ev()
    baselen = SU.olen(n)
    ctx.case_sample(case)
    try:
        key = (case["curve"], dd, hname)
        if cache is not None and key in cache:
            sk0 = cache[key]
        else:
            sk0 = SU.make_sk(d, dd, hashfunc=hf)
            if cache is not None:
                cache[key] = sk0
        sk = SU.reload_sk(sk0, sroute, d, hf)
        vk = SU.reload_vk(sk.get_verifying_key() if case.get("vk_from_reloaded_sk") else sk0.get_verifying_key(),
                          vroute, d, hf)
        if case.get("precompute"):
            if vk is sk0.get_verifying_key():
                # never mutate the cached key: work on a reloaded copy
                vk = SU.reload_vk(vk, "uncompressed", d, hf)
            vk.precompute(lazy=case["precompute"] == "lazy")
    except Exception as e:
        ctx.fail("key-setup/%s/%s/%s" % (sroute, vroute, exc_sig(e)), case, repr(e))
        return
    kw = {}
    if nonce[0] == "k":
        kw["k"] = nonce[1]
    elif nonce[0] == "entropy":
        kw["entropy"] = Stream(bytes.fromhex(nonce[1]), bytes.fromhex(nonce[2]))
    digest = None
    raw_payload = payload
    ptype = case.get("ptype", "bytes")
    try:
        if entry == "sign":
            digest = hf(payload).digest()
            use_default = case.get("default_hash", False)
            if case.get("positional"):
                # sign(data, entropy, hashfunc, sigencode, k, allow_truncate) / verify(signature, data, hashfunc, sigdecode, allow_truncate)
                sig = sk.sign(as_type(payload, ptype), kw.get("entropy"), None if use_default else hf, enc, kw.get("k"), True)
                ok = vk.verify(sig, payload, None if use_default else hf, dec, True)
            else:
                sig = sk.sign(as_type(payload, ptype), hashfunc=None if use_default else hf, sigencode=enc, **kw)
                ok = vk.verify(sig, payload, hashfunc=None if use_default else hf, sigdecode=dec)
        elif entry == "sign_digest":
            digest = payload
            imp = {} if (at is False and dd % 2) else {"allow_truncate": at}     # default left implicit
            if case.get("positional"):
                # documented order: sign_digest(digest, entropy, sigencode, k, allow_truncate) /
                # verify_digest(signature, digest, sigdecode, allow_truncate)
                sig = sk.sign_digest(as_type(digest, ptype), kw.get("entropy"), enc, kw.get("k"), at)
                ok = vk.verify_digest(sig, as_type(digest, case.get("vtype", "bytes")), dec, at)
            else:
                sig = sk.sign_digest(as_type(digest, ptype), sigencode=enc, **imp, **kw)
                ok = vk.verify_digest(sig, as_type(digest, case.get("vtype", "bytes")), sigdecode=dec, **imp)
        elif entry == "sign_deterministic":
            digest = hf(payload).digest()
            extra = bytes.fromhex(nonce[1]) if nonce[0] == "rfc" else b""
            use_default = case.get("default_hash", False)
            if case.get("positional"):
                # sign_deterministic(data, hashfunc, sigencode, extra_entropy)
                sig = sk.sign_deterministic(as_type(payload, ptype), None if use_default else hf, enc,
                                            as_type(extra, case.get("vtype", "bytes")))
            else:
                sig = sk.sign_deterministic(as_type(payload, ptype), hashfunc=None if use_default else hf, sigencode=enc,
                                            extra_entropy=as_type(extra, case.get("vtype", "bytes")))
            ok = vk.verify(sig, as_type(payload, case.get("vtype", "bytes")), hashfunc=None if use_default else hf,
                           sigdecode=dec)
        elif entry == "sign_digest_deterministic":
            digest = payload
            extra = bytes.fromhex(nonce[1]) if nonce[0] == "rfc" else b""
            imp = {} if (at is False and dd % 2) else {"allow_truncate": at}
            sig = sk.sign_digest_deterministic(as_type(digest, ptype), hashfunc=hf, sigencode=enc, extra_entropy=extra,
                                               **imp)
            ok = vk.verify_digest(sig, digest, sigdecode=dec, **imp)
        elif entry == "sign_number":
            number = int.from_bytes(payload, "big")
            r, s = sk.sign_number(number, **kw)
            ok = vk.pubkey.verifies(number, Signature(r, s))
            Q = rec.mul(d.c, dd, d.G)
            if ok is True and not rdsa.verify(d.ref, Q, number, int(r), int(s)):
                ok = "library verifies, reference does not"
        else:
            raise ValueError(entry)
    except RSZeroError as e:
        # legitimate only for probabilistic entry points and only if the nonce really gives r=0 or s=0
        if entry in ("sign_deterministic", "sign_digest_deterministic"):
            ctx.fail("rszero-escaped-deterministic", case, repr(e))
            return
        if entry == "sign_number":
            e_int = int.from_bytes(payload, "big")
        else:
            e_int = SU.e_of(digest, n, True if entry == "sign" else at)
        if nonce[0] == "k":
            legit = rdsa.sign(d.ref, dd, nonce[1], e_int) == "RS-ZERO"
        else:
            # the nonce the library draws from this stream (randrange itself is checked by C17)
            from ecdsa.util import randrange
            kk = randrange(n, Stream(bytes.fromhex(nonce[1]), bytes.fromhex(nonce[2])))
            legit = rdsa.sign(d.ref, dd, kk, e_int) == "RS-ZERO"
        if not legit:
            ctx.fail("rszero-unjustified/%s" % nonce[0], case, repr(e))
        else:
            ctx.event("rszero-legit")
        return
    except BadSignatureError as e:
        ctx.fail("own-signature-rejected/%s/%s/%s" % (entry, encname.split("_")[0], _cls(n, digest, payload, entry)),
                 case, repr(e))
        return
    except Exception as e:
        ctx.fail("exception/%s/%s" % (entry, exc_sig(e)), case, repr(e))
        return
    if ok is not True:
        ctx.fail("verify-not-True/%s" % entry, case, repr(ok))
    # classification
    cls = []
    bl = n.bit_length()
    if digest is not None and 8 * len(digest) > bl:
        cls.append("truncation")
    if bl % 8:
        cls.append("unaligned")
    if vroute != "none" or sroute != "none":
        cls.append("reload")
    if hname in ("short4", "short7", "wide100"):
        cls.append("odd-hash")
    if nonce[0] != "k":
        cls.append(nonce[0])
    if case.get("precompute"):
        cls.append("precomputed-vk")
    if ptype != "bytes" or case.get("vtype", "bytes") != "bytes":
        cls.append("non-bytes-payload")
    if case.get("boundary"):
        cls.append("boundary")
    if "canonize" in encname:
        cls.append("low-s")
    for c in cls:
        ctx.event("c:" + c)
    ctx.event("entry:" + entry)
    if cls:
        if enum:
            ctx.nontrivial_enum()
        else:
            ctx.nontrivial(("c01", tuple(sorted((k, repr(v)) for k, v in case.items()))))


def _cls(n, digest, payload, entry):
    if digest is None:
        return "number"
    if 8 * len(digest) > n.bit_length():
        return "trunc" + ("" if n.bit_length() % 8 == 0 else "-unaligned")
    return "notrunc"


def toy_sweep(ctx, cname, digests, encs):
    d = gen.dom(cname)
    n = d.n
    cache = {}
    i = 0
    for dd in range(1, n):
        for k in range(1, n):
            for dg in digests:
                i += 1
                encname = encs[i % len(encs)]
                check_case(ctx, {"curve": cname, "d": dd, "hash": "sha1", "enc": encname,
                                 "entry": "sign_digest", "payload": dg.hex(), "nonce": ["k", k], "at": True,
                                 "boundary": dd in (1, n - 1) or k in (1, n - 1)}, enum=True, cache=cache)


def st_case(names, toy):
    def mk(cname, di, ki, u1, u2, hname, encname, entry, payload, nk, extra, prefix, seed, at, vr, sr, flag, dh, pre=None,
           ptype="bytes", vtype="bytes", positional=False):
        dm = gen.dom(cname)
        n = dm.n
        bs = gen.boundary_scalars(n)
        dd = bs[di % len(bs)] if di >= 0 else 1 + u1 % (n - 1)
        k = bs[ki % len(bs)] if ki >= 0 else 1 + u2 % (n - 1)
        baselen = SU.olen(n)
        if u2 % 5 == 0:
            hname = gen.exact_hash_name(n)        # hash output exactly as long as the order (in octets)
        if entry in ("sign_digest", "sign_digest_deterministic"):
            if not payload:
                payload = b"\x01"
            if len(payload) > baselen:
                at = True
        if entry in ("sign_deterministic", "sign_digest_deterministic"):
            nonce = ["rfc", extra.hex()]
        elif nk == 0:
            nonce = ["k", k]
        else:
            nonce = ["entropy", prefix.hex(), seed.to_bytes(8, "big").hex()]
        vroutes = SU.VK_ROUTES_ANY + ([] if toy else SU.VK_ROUTES_NAMED)
        sroutes = SU.SK_ROUTES_ANY + ([] if toy else SU.SK_ROUTES_NAMED)
        return {"curve": cname, "d": dd, "hash": hname, "enc": encname, "entry": entry, "payload": payload.hex(),
                "nonce": nonce, "at": at, "vk_route": vroutes[vr % len(vroutes)] if vr >= 0 else "none",
                "sk_route": sroutes[sr % len(sroutes)] if sr >= 0 else "none",
                "vk_from_reloaded_sk": flag, "default_hash": dh, "boundary": di >= 0 or (nk == 0 and ki >= 0),
                "precompute": pre, "ptype": ptype, "vtype": vtype, "positional": positional}

    payloads = st.one_of(st.binary(max_size=70), st.binary(min_size=100, max_size=200),
                         st.sampled_from([b"", b"\x00", b"\xff" * 66, bytes(66), b"\x80" + bytes(31)]))
    return st.builds(
        mk, st.sampled_from(names), st.integers(-10, 50), st.integers(-10, 50), st.integers(0, 1 << 530),
        st.integers(0, 1 << 530), st.sampled_from(gen.HASH_NAMES), st.sampled_from(SU.ENC_NAMES),
        st.sampled_from(ENTRIES), payloads, st.integers(0, 1),
        st.one_of(st.just(b""), st.binary(min_size=1, max_size=30)),
        st.one_of(st.binary(max_size=3), st.sampled_from([b"\xff" * 70, bytes(70)])), st.integers(0, 2 ** 64 - 1),
        st.booleans(), st.integers(-12, 12), st.integers(-8, 8), st.booleans(), st.booleans(),
        st.sampled_from([None, None, None, "lazy", "eager"]),
        st.sampled_from(["bytes", "bytes"] + PAYLOAD_TYPES), st.sampled_from(["bytes", "bytes", "bytearray", "memoryview", "array-B"]),
        st.sampled_from([False, False, True]))


def sweep_cases(names, full):
    """cross product curve x hash x encoding x entry; pairwise-ish subset when not full"""
    combos = list(itertools.product(gen.HASH_NAMES, SU.ENC_NAMES, ENTRIES))
    for ci, cname in enumerate(names):
        n = gen.dom(cname).n
        bs = gen.boundary_scalars(n)
        # a hash whose output is exactly as long as this curve's order, through every entry point
        exact = [(gen.exact_hash_name(n), SU.ENC_NAMES[(ci + e) % len(SU.ENC_NAMES)], entry) for e, entry in enumerate(ENTRIES)]
        for j, (hname, encname, entry) in enumerate(exact + combos):
            if not full and (j + 7 * ci) % 11 and j >= len(exact):
                continue
            dd = bs[(j * 3 + ci) % len(bs)]
            k = bs[(j * 5 + 2 * ci + 1) % len(bs)]
            payload = b"sweep-%d-%d" % (ci, j)
            if entry in ("sign_digest", "sign_digest_deterministic"):
                payload = gen.HASHES[hname](payload).digest()
            nonce = ["rfc", ""] if "deterministic" in entry else ["k", k]
            # reload routes and "rely on the key's default hash" rotate systematically through the sweep
            sroutes = SU.SK_ROUTES_ANY + SU.SK_ROUTES_NAMED
            vroutes = SU.VK_ROUTES_ANY + SU.VK_ROUTES_NAMED
            yield {"curve": cname, "d": dd, "hash": hname, "enc": encname, "entry": entry,
                   "payload": payload.hex(), "nonce": nonce, "at": True, "boundary": True,
                   "sk_route": sroutes[(j // 3 + ci) % len(sroutes)], "vk_route": vroutes[(j // 5 + 2 * ci) % len(vroutes)],
                   "vk_from_reloaded_sk": (j // 7) % 3 == 0, "default_hash": j % 2 == 0,
                   "precompute": (None, "lazy", None, "eager")[(j // 2) % 4], "positional": (j // 4) % 2 == 1}


def _interleaved_jobs():
    """two threads, each with its own key on its own curve (they share nothing but the library's modules):
    sign, serialise, reload, verify"""
    from ecdsa import SigningKey, VerifyingKey
    from ecdsa import util as U
    d1, d2 = gen.dom("t65521b"), gen.dom("t1021a")      # 2-octet fields; orders of 3 resp. 2 octets

    def job(d, dd, msg, hf, enc, dec, fmt):
        def run():
            sk = SigningKey.from_secret_exponent(dd, curve=d.lib, hashfunc=hf)
            sig = sk.sign_deterministic(msg, sigencode=enc)
            vk = VerifyingKey.from_string(sk.get_verifying_key().to_string(fmt), curve=d.lib, hashfunc=hf)
            ok = vk.verify(sig, msg, sigdecode=dec)
            sig2 = sk.sign_digest(hf(msg).digest(), k=(dd % (d.n - 5)) + 2, sigencode=U.sigencode_string, allow_truncate=True)
            ok2 = vk.verify_digest(sig2, hf(msg).digest(), allow_truncate=True)
            try:
                bad = vk.verify(sig, msg + b"!", sigdecode=dec)
            except BadSignatureError:
                bad = "BadSignatureError"
            return [sig.hex() if isinstance(sig, bytes) else repr(sig), ok, sig2.hex(), ok2, bad]
        return run
    return {"a": job(d1, d1.n // 3 + 1, b"message a", hashlib.sha256, U.sigencode_der, U.sigdecode_der, "compressed"),
            "b": job(d2, d2.n - 2, b"message b", hashlib.sha256, U.sigencode_string_canonize, U.sigdecode_string, "uncompressed")}


def _interleaved(ctx, stride, max_schedules):
    from .purity import interleaved_pure
    import ecdsa.keys as K
    import ecdsa.ecdsa as E
    import ecdsa.ellipticcurve as EL
    import ecdsa.util as UM
    import ecdsa.rfc6979 as RF
    import ecdsa.der as DM
    import ecdsa.numbertheory as NM
    jobs = _interleaved_jobs()
    for k, f in jobs.items():
        ctx.ev()
        try:
            r = f()
        except Exception as e:
            ctx.fail("interleaved/sequential-job-exception/%s" % exc_sig(e), {"kind": "interleaved", "job": k}, repr(e)[:300])
            return
        if r[1] is not True or r[3] is not True:
            ctx.fail("interleaved/sequential-job-own-signature-not-verified", {"kind": "interleaved", "job": k}, repr(r)[:300])
            return
        if r[4] != "BadSignatureError":
            raise RuntimeError("sequential job of the interleaved unit accepts a signature for another message (C02's business)")
    interleaved_pure(ctx, "sign-verify", [K, E, EL, UM, RF, DM, NM], jobs, stride, second_counts=(None, 40), max_schedules=max_schedules)


def neg_pairs(ctx):
    """keys d and n-d (public points P and -P: same x, other parity) used one after the other in one process,
    each verifying key reloaded from its compressed encodings"""
    from ecdsa import SigningKey, VerifyingKey
    from ecdsa import util as U
    for cname in ("NIST192p", "NIST256p", "SECP160r1", "BRAINPOOLP160r1", "t1021a", "t65521b"):
        d = gen.dom(cname)
        for base in (1, 2, d.n // 3):
            for dd in (base, d.n - base, base):
                ctx.ev()
                case = {"kind": "neg-pairs", "curve": cname, "d": dd}
                try:
                    sk = SigningKey.from_secret_exponent(dd, curve=d.lib, hashfunc=hashlib.sha256)
                    vk0 = sk.get_verifying_key()
                    sig = sk.sign_deterministic(b"pair", sigencode=U.sigencode_der)
                    routes = [("compressed-string", VerifyingKey.from_string(vk0.to_string("compressed"), curve=d.lib, hashfunc=hashlib.sha256))]
                    if not d.toy:
                        routes.append(("compressed-der", VerifyingKey.from_der(vk0.to_der("compressed"), hashfunc=hashlib.sha256)))
                        routes.append(("compressed-pem", VerifyingKey.from_pem(vk0.to_pem("compressed"), hashfunc=hashlib.sha256)))
                    for rn, vk in routes:
                        Q = rec.mul(d.c, dd, d.G)
                        if (int(vk.pubkey.point.x()), int(vk.pubkey.point.y())) != Q:
                            ctx.fail("neg-pairs/reloaded-key-is-another-point/%s" % rn, case, "")
                        if vk.verify(sig, b"pair", sigdecode=U.sigdecode_der) is not True:
                            ctx.fail("neg-pairs/not-verified/%s" % rn, case, "")
                except BadSignatureError as e:
                    ctx.fail("neg-pairs/BadSignatureError", case, repr(e))
                except Exception as e:
                    ctx.fail("neg-pairs/exception/%s" % exc_sig(e), case, repr(e))
                ctx.nontrivial(("neg-pairs", cname, dd))
    ctx.sample({"kind": "neg-pairs", "note": "d, n-d, d again on each curve; verifying keys reloaded from compressed forms"})


def units(tier, seed):
    q = tier == "quick"
    out = [("interleaved", {"stride": 1, "max": 2500 if q else 40000}), ("neg-pairs", {})]
    names = sorted(gen.NAMED, key=lambda x: -gen.dom(x).p)
    for nm in names:
        out.append(("sweep", {"names": [nm], "full": not q}))
    one = [bytes([i]) for i in range(256)]
    encs = SU.ENC_NAMES
    if q:
        out.append(("toy", {"curve": "t13", "digests": [x.hex() for x in one[::4]], "encs": encs}))
        out.append(("toy", {"curve": "t23a", "digests": [x.hex() for x in one[::16] + [b"\xff\xff"]], "encs": encs}))
        out.append(("toy", {"curve": "t23b", "digests": [x.hex() for x in one[5::32]], "encs": encs}))
        out.append(("toy", {"curve": "t17x", "digests": [x.hex() for x in one[::4]], "encs": encs}))
        out.append(("toy", {"curve": "t31x", "digests": [x.hex() for x in one[3::32]], "encs": encs}))
    else:
        for c in ("t13", "t23a", "t23b", "t29", "t17x", "t31x"):
            for part in range(4):
                out.append(("toy", {"curve": c, "digests": [x.hex() for x in one[part::4]], "encs": encs}))
        out.append(("toy", {"curve": "t61", "digests": [x.hex() for x in one[::16]], "encs": encs}))
        out.append(("toy", {"curve": "t127", "digests": [x.hex() for x in one[::64]], "encs": encs}))
    for i in range(8):
        out.append(("hyp-named", {"names": names[i::8], "examples": 150 if q else 2500}))
    toys = list(gen.TOY_PRIME) + ["t13-legacy", "t23a-legacy", "t251a-legacy", "t17x-legacy"]
    for i in range(4):
        out.append(("hyp-toy", {"names": toys[i::4], "examples": 2500 if q else 30000}))
    out.append(("faults", {"jobset": 'keys', "arg": 'NIST192p', "examples": 40 if tier == "quick" else 1500, "triples": 400 if tier == "quick" else 20000}))
    out.append(("faults", {"jobset": 'keys', "arg": 'SECP160r1', "examples": 40 if tier == "quick" else 1500, "triples": 400 if tier == "quick" else 20000}))
    out.append(("faults", {"jobset": 'keys', "arg": 't23a', "examples": 40 if tier == "quick" else 1500, "triples": 400 if tier == "quick" else 20000}))
    out.append(("faults", {"jobset": 'keys', "arg": 'NIST256p', "examples": 40 if tier == "quick" else 1500, "triples": 400 if tier == "quick" else 20000}))
    out.append(("inject", {"level": 'keys', "curve": 't23a', "max_points": 300 if tier == "quick" else 6000}))
    out.append(("inject", {"level": 'keys', "curve": 'NIST192p', "max_points": 60 if tier == "quick" else 1200}))
    out.append(("inject", {"level": 'keys', "curve": 't1021a', "max_points": 200 if tier == "quick" else 4000}))
    return out


def run_unit(ctx, name, **kw):
    if name == "inject":
        from . import inject
        inject.run(ctx, **kw)
        return
    if name == "faults":
        from . import faults
        faults.run_set(ctx, **kw)
        return
    if name == "interleaved":
        _interleaved(ctx, kw["stride"], kw["max"])
        return
    if name == "neg-pairs":
        neg_pairs(ctx)
        return
    if name == "sweep":
        cache = {}
        last = None
        for case in sweep_cases(kw["names"], kw["full"]):
            check_case(ctx, case, cache=cache)
            last = case
        if last:
            ctx.sample(last)
    elif name == "toy":
        if kw["curve"] == "t23a":
            # 2 MiB message, hashed by the library (kept as pattern x count so that samples stay small)
            for entry, hname in (("sign", "sha256"), ("sign_deterministic", "sha512"), ("sign", "short4")):
                for cname in ("NIST256p", "t251a"):
                    check_case(ctx, {"curve": cname, "d": gen.dom(cname).n - 2, "hash": hname, "enc": "der", "entry": entry,
                                     "payload": "", "payload_repeat": [bytes(range(256)).hex(), 8192], "nonce": ["rfc", ""] if "det" in entry else ["k", 7],
                                     "at": True, "boundary": True, "ptype": "memoryview"})
        toy_sweep(ctx, kw["curve"], [bytes.fromhex(x) for x in kw["digests"]], kw["encs"])
        ctx.sample({"curve": kw["curve"], "d": "all", "k": "all", "digests": kw["digests"][:6], "enc": "rotating over 6"})
        ctx.exhausted("%s: all d x all k x listed digests" % kw["curve"])
    elif name in ("hyp-named", "hyp-toy"):
        def body(c, case):
            check_case(c, case)
            c.sample(case)
        run_hypothesis(ctx, "cases", st_case(kw["names"], name == "hyp-toy"), body, kw["examples"])
    else:
        raise ValueError(name)


def replay(ctx, case):
    if case.get("kind") == "inject":
        from . import inject
        inject.replay(ctx, case)
        return
    if case.get("kind") == "fault-history":
        from . import faults
        faults.replay(ctx, case)
        return
    if case.get("kind") == "interleaved":
        _interleaved(ctx, 1, 2500)
        return
    if case.get("kind") == "neg-pairs":
        neg_pairs(ctx)
        return
    check_case(ctx, case)
