"""C04 - deterministic nonces and signatures follow RFC 6979."""
import hashlib

from hypothesis import strategies as st

from .. import gen
from ..ref import dsa as rdsa
from ..ref import rfc6979 as RR
from ..runner import run_hypothesis, exc_sig
from . import sigutil as SU

from ecdsa import rfc6979 as L
from ecdsa.ecdsa import RSZeroError

RULE = (
    "Nonce cases are (order n, d, hash, digest bytes, extra entropy, retry count): every n in a range "
    "with d in {1, n//2, n-1} and several digests/hashes; the 17 curve orders and random n up to 600 bits "
    "(prime or not, byte aligned or not) with boundary d, digests of length 1..100, the 11 hash functions "
    "(4 to 100 bytes output), extra entropy empty/short/long, retry 0..5. Oracle: an independent "
    "implementation of RFC 6979 3.2/3.6 that passes the RFC's appendix vectors at start-up; also 1<=k<n. "
    "Signature cases (curve, d, data or digest, hash, extra entropy, entry point): deterministic signing "
    "twice gives identical output equal to the reference ECDSA signature for the first RFC 6979 candidate "
    "that does not give r=0 or s=0; on toy curves every d with many messages is enumerated so that real "
    "RS-zero retries occur. Non-trivial = bitlen(n) % 8 != 0, digest longer/shorter than n, hash shorter than "
    "n (multi-block T), non-empty extra entropy, retry > 0, an actual RS-zero retry; distinct by the full tuple."
)
ASSUMPTIONS = [
    "pbt/ref/rfc6979.py is a faithful transcription of RFC 6979 (checked against appendix A vectors in every run; a failure is a harness error)",
    "hash functions have at least 4 bytes of output; digests are non-empty",
]


def check_k(ctx, case, enum=False):
    n, x = case["n"], case["d"]
    hf = gen.HASHES[case["hash"]]
    data = bytes.fromhex(case["data"])
    extra = bytes.fromhex(case.get("extra", ""))
    retry = case.get("retry", 0)
    ctx.ev()
    want = RR.k(n, x, hf, data, extra, retry)
    try:
        from .c01 import as_type, PAYLOAD_TYPES
        t = PAYLOAD_TYPES[(n + x + len(data)) % len(PAYLOAD_TYPES)]
        t2 = ("bytes", "bytearray", "memoryview", "array-B")[(n + retry) % 4]
        got = L.generate_k(n, x, hf, as_type(data, t if t not in ("array-H", "view-cast-I") else "bytearray"),
                           retry_gen=retry, extra_entropy=as_type(extra, t2))
    except Exception as e:
        ctx.fail("generate_k/exception/%s" % exc_sig(e), case, repr(e))
        return
    qlen = n.bit_length()
    cls = []
    if qlen % 8:
        cls.append("unaligned")
    if 8 * len(data) > qlen:
        cls.append("long-digest")
    elif 8 * len(data) < qlen:
        cls.append("short-digest")
    if 8 * hf().digest_size < qlen:
        cls.append("multiblock")
    if extra:
        cls.append("extra")
    if retry:
        cls.append("retry")
    if got != want or not (1 <= got < n):
        ctx.fail("generate_k/wrong/%s" % ("+".join(cls) or "plain"), case, "library %r reference %r" % (got, want))
    for c in cls:
        ctx.event("k:" + c)
    if cls:
        if enum:
            ctx.nontrivial_enum()
        else:
            ctx.nontrivial(("k", n, x, case["hash"], case["data"], case.get("extra", ""), retry))


def check_sig(ctx, case, enum=False, cache=None):
    d = gen.dom(case["curve"])
    n = d.n
    dd = case["d"]
    hf = gen.HASHES[case["hash"]]
    extra = bytes.fromhex(case.get("extra", ""))
    entry = case["entry"]
    payload = bytes.fromhex(case["payload"])
    ctx.ev()
    try:
        key = (case["curve"], dd, case["hash"])
        if cache is not None and key in cache:
            sk = cache[key]
        else:
            sk = SU.make_sk(d, dd, hashfunc=hf)
            if cache is not None:
                cache[key] = sk
        if entry == "data":
            digest = hf(payload).digest()
            if (dd + len(payload)) % 2:
                a = sk.sign_deterministic(payload, hf, SU.rs_tuple, extra)        # documented positional order
            else:
                a = sk.sign_deterministic(payload, hashfunc=hf, sigencode=SU.rs_tuple, extra_entropy=extra)
            b = sk.sign_deterministic(payload, sigencode=SU.rs_tuple, extra_entropy=extra)  # default hash
            at = True
        else:
            digest = payload
            at = case.get("at", True)
            a = sk.sign_digest_deterministic(digest, hashfunc=hf, sigencode=SU.rs_tuple, extra_entropy=extra,
                                             allow_truncate=at)
            from .c01 import as_type, PAYLOAD_TYPES
            pt = PAYLOAD_TYPES[(dd + len(digest) + len(extra)) % len(PAYLOAD_TYPES)]
            b = sk.sign_digest_deterministic(as_type(digest, pt), hashfunc=hf, sigencode=SU.rs_tuple,
                                             extra_entropy=memoryview(extra), allow_truncate=at)
    except RSZeroError as e:
        ctx.fail("sign_deterministic/RSZeroError-escaped", case, repr(e))
        return
    except Exception as e:
        ctx.fail("sign_deterministic/exception/%s" % exc_sig(e), case, repr(e))
        return
    e_int = SU.e_of(digest, n, at)
    retries = 0
    want = None
    for kc in RR.candidates(n, dd, hf, digest, extra):
        r = rdsa.sign(d.ref, dd, kc, e_int)
        if r != "RS-ZERO":
            want = r
            break
        retries += 1
        if retries > 200:
            break
    a = tuple(int(v) for v in a)
    b = tuple(int(v) for v in b)
    if a != b:
        ctx.fail("sign_deterministic/not-repeatable", case, "%r vs %r" % (a, b))
    if want is not None and a != want:
        ctx.fail("sign_deterministic/wrong-signature/%s" % ("retry" if retries else "first"), case,
                 "library %r reference %r (reference skipped %d RS-zero candidates)" % (a, want, retries))
    ctx.event("sig:retries=%d" % min(retries, 3))
    if retries or extra or n.bit_length() % 8 or len(digest) * 8 != n.bit_length():
        if enum:
            ctx.nontrivial_enum()
        else:
            ctx.nontrivial(("sig", case["curve"], dd, case["hash"], case["payload"], case.get("extra", ""), entry))


def _boundary_digest(n, delta, extra_bytes=0):
    """digest whose leftmost bitlen(n) bits are n + delta (when that fits)"""
    qlen = n.bit_length()
    v = n + delta
    if v < 0 or v >= 1 << qlen:
        v = n
    nbytes = (qlen + 7) // 8
    data = (v << (8 * nbytes - qlen)).to_bytes(nbytes, "big")
    return data + b"\xa5" * extra_bytes


def k_history(ctx):
    """generate_k is a pure function: interleaving calls that differ only in the hash function (same digest
    size) or only in the retry index must not influence each other"""
    groups = [["sha256", "sha3_256"], ["sha512", "blake2b"], ["sha1", "sha1"], ["short4", "short4"]]
    for n in (gen.named("NIST256p").n, gen.named("SECP160r1").n, 65521, 251):
        for x in (1, n // 3, n - 1):
            for grp in groups:
                data = gen.HASHES[grp[0]](b"history").digest()
                for extra in (b"", b"\x01\x02"):
                    seq = []
                    for r in range(0, 4):
                        seq.append((grp[r % 2], r))
                    seq += [(grp[0], 0), (grp[1], 0), (grp[1], 3), (grp[0], 2), (grp[0], 3)]
                    for hname, r in seq:
                        check_k(ctx, {"kind": "k", "n": n, "d": x, "hash": hname, "data": data.hex(),
                                      "extra": extra.hex(), "retry": r})
    ctx.sample({"kind": "k-history", "note": "retry i with one hash followed by retry i+1 with another hash of the same size"})


def st_k():
    orders = st.one_of(
        st.sampled_from([gen.named(c).n for c in gen.NAMED]),
        st.integers(2, 1 << 600),
        st.integers(2, 1 << 20),
        st.builds(lambda k, dlt: max(2, (1 << k) + dlt), st.integers(1, 600), st.integers(-3, 3)),
    )

    def mk(n, di, u, hname, dkind, dlen, rnd, extra, retry):
        bs = gen.boundary_scalars(n) if n > 3 else [1]
        x = bs[di % len(bs)] if di >= 0 else 1 + u % (n - 1) if n > 2 else 1
        if rnd % 5 == 0:
            hname = gen.exact_hash_name(n, 4)      # hash output exactly as long as the order (in octets)
        if dkind == 4:
            # leftmost qlen bits equal to n-1, n or n+1 (the bits2octets reduction boundary)
            data = _boundary_digest(n, (rnd % 3) - 1, rnd % 2)
        elif dkind == 0:
            data = hashlib.shake_128(rnd.to_bytes(8, "big")).digest(dlen)
        elif dkind == 1:
            data = bytes(dlen)
        elif dkind == 2:
            data = b"\xff" * dlen
        else:
            data = gen.HASHES[hname](rnd.to_bytes(8, "big")).digest()
        return {"kind": "k", "n": n, "d": x, "hash": hname, "data": data.hex(), "extra": extra.hex(), "retry": retry}

    return st.builds(mk, orders, st.integers(-10, 60), st.integers(0, 1 << 600), st.sampled_from(gen.HASH_NAMES),
                     st.integers(0, 4), st.integers(1, 100), st.integers(0, 2 ** 64 - 1),
                     st.one_of(st.just(b""), st.binary(min_size=1, max_size=8), st.binary(min_size=60, max_size=130)),
                     st.sampled_from([0, 0, 0, 1, 2, 3, 5]))


def st_sig(names):
    def mk(cname, di, u, hname, entry, payload, extra, at):
        n = gen.dom(cname).n
        bs = gen.boundary_scalars(n)
        dd = bs[di % len(bs)] if di >= 0 else 1 + u % (n - 1)
        if entry == "digest":
            if not payload:
                payload = b"\x00"
            if not at and len(payload) > SU.olen(n):
                payload = payload[: SU.olen(n)]
        if u % 5 == 0:
            hname = gen.exact_hash_name(n, 4)
        return {"kind": "sig", "curve": cname, "d": dd, "hash": hname, "entry": entry, "payload": payload.hex(),
                "extra": extra.hex(), "at": at}
    return st.builds(mk, st.sampled_from(names), st.integers(-10, 60), st.integers(0, 1 << 600),
                     st.sampled_from(gen.HASH_NAMES), st.sampled_from(["data", "digest"]),
                     st.one_of(st.binary(max_size=40), st.binary(min_size=60, max_size=140)),
                     st.one_of(st.just(b""), st.binary(min_size=1, max_size=40)), st.booleans())


def _interleaved_jobs():
    import hashlib as H
    n1, n2 = gen.named("SECP160r1").n, gen.named("BRAINPOOLP256r1").n
    d1, d2 = H.sha256(b"one").digest(), H.sha3_256(b"two").digest()
    jobs = {
        "a": lambda: [L.generate_k(n1, 12345, H.sha256, d1, retry_gen=1), L.generate_k(n2, 7, H.sha256, d1, extra_entropy=b"x")],
        "b": lambda: [L.generate_k(n1, 54321, H.sha3_256, d2, retry_gen=2), L.generate_k(251, 9, H.sha256, d2)],
    }
    want = {"a": [RR.k(n1, 12345, H.sha256, d1, b"", 1), RR.k(n2, 7, H.sha256, d1, b"x", 0)],
            "b": [RR.k(n1, 54321, H.sha3_256, d2, b"", 2), RR.k(251, 9, H.sha256, d2, b"", 0)]}
    for k in jobs:
        if jobs[k]() != want[k]:
            raise RuntimeError("sequential generate_k differs from the reference: the ordinary units report that")
    return jobs


def units(tier, seed):
    q = tier == "quick"
    out = [("interleaved", {"stride": 1, "max": 4000 if q else 40000})]
    top = 1200 if q else 4096
    for i in range(4):
        out.append(("small-orders", {"lo": 2, "hi": top, "shard": i, "nshards": 4}))
    for i in range(8):
        out.append(("k-random", {"examples": 4000 if q else 60000, "label": "k%d" % i}))
    out.append(("k-history", {}))
    out.append(("toy-sigs", {"curve": "t13", "msgs": 40 if q else 400}))
    out.append(("toy-sigs", {"curve": "t23a", "msgs": 25 if q else 250}))
    out.append(("toy-sigs", {"curve": "t23b", "msgs": 25 if q else 250}))
    out.append(("toy-sigs", {"curve": "t251a", "msgs": 2 if q else 20}))
    names = gen.NAMED
    for i in range(4):
        out.append(("named-sigs", {"names": names[i::4], "examples": 100 if q else 2500}))
    out.append(("faults", {"jobset": 'keys', "arg": 'NIST192p', "examples": 40 if tier == "quick" else 1500, "triples": 400 if tier == "quick" else 20000}))
    out.append(("faults", {"jobset": 'keys', "arg": 'SECP160r1', "examples": 40 if tier == "quick" else 1500, "triples": 400 if tier == "quick" else 20000}))
    out.append(("faults", {"jobset": 'keys', "arg": 't23a', "examples": 40 if tier == "quick" else 1500, "triples": 400 if tier == "quick" else 20000}))
    return out


def run_unit(ctx, name, **kw):
    if name == "faults":
        from . import faults
        faults.run_set(ctx, **kw)
        return
    if name == "interleaved":
        from .purity import interleaved_pure
        RR.selfcheck()
        jobs = _interleaved_jobs()
        interleaved_pure(ctx, "rfc6979", [L], jobs, kw["stride"], max_schedules=kw["max"])
        return
    try:
        RR.selfcheck()
    except AssertionError:
        raise RuntimeError("reference RFC 6979 implementation fails the RFC appendix vectors")
    if name == "small-orders":
        hs = ["sha1", "sha256", "short4", "wide100", "md5"]
        for n in range(kw["lo"], kw["hi"] + 1):
            if n % kw["nshards"] != kw["shard"]:
                continue
            for x in sorted({1, n // 2, n - 1} - {0}):
                if not 1 <= x < n:
                    continue
                for j, data in enumerate((b"\x00", b"\xff\xff\xff\xff", hashlib.sha256(b"%d" % n).digest(),
                                          _boundary_digest(n, 0), _boundary_digest(n, -1, 1), _boundary_digest(n, 1))):
                    check_k(ctx, {"kind": "k", "n": n, "d": x, "hash": hs[(n + j) % len(hs)], "data": data.hex(),
                                  "extra": "" if (n + j) % 3 else "ab", "retry": (n + j) % 4 if j in (2, 3) else 0}, enum=True)
        ctx.sample({"kind": "k", "n": kw["lo"] + kw["shard"], "note": "all n in range, d in {1,n//2,n-1}"})
        ctx.exhausted("generate_k: every order in [2,%d] with boundary d" % kw["hi"])
    elif name == "k-history":
        k_history(ctx)
    elif name == "k-random":
        def body(c, case):
            check_k(c, case)
            c.sample(case)
        run_hypothesis(ctx, kw["label"], st_k(), body, kw["examples"])
    elif name == "toy-sigs":
        d = gen.dom(kw["curve"])
        cache = {}
        hs = ["sha1", "sha256", "short4", "wide100"]
        for dd in range(1, d.n):
            for m in range(kw["msgs"]):
                msg = b"%d/%d" % (dd, m)
                check_sig(ctx, {"kind": "sig", "curve": kw["curve"], "d": dd, "hash": hs[m % 4],
                                "entry": "data" if m % 2 else "digest", "payload": msg.hex(),
                                "extra": "" if m % 3 else "01", "at": True}, enum=True, cache=cache)
        ctx.sample({"kind": "sig", "curve": kw["curve"], "d": "all", "messages": kw["msgs"]})
    elif name == "named-sigs":
        def body(c, case):
            check_sig(c, case)
            c.sample(case)
        run_hypothesis(ctx, "sigs", st_sig(kw["names"]), body, kw["examples"])
    else:
        raise ValueError(name)


def replay(ctx, case):
    if case.get("kind") == "fault-history":
        from . import faults
        faults.replay(ctx, case)
        return
    RR.selfcheck()
    if case.get("kind") == "interleaved":
        from .purity import interleaved_pure
        interleaved_pure(ctx, "rfc6979", [L], _interleaved_jobs(), 1, max_schedules=4000)
        return
    if case["kind"] == "k":
        check_k(ctx, case)
    else:
        check_sig(ctx, case)
