"""C12 - signature encodings: bijective, fixed size, strictly decoded."""
import itertools

from hypothesis import strategies as st

from .. import gen
from ..ref import der as R
from ..runner import run_hypothesis, exc_sig, srepr

from ecdsa import util as U
from ecdsa import der as D

RULE = (
    "Encoder cases are (n, r, s): every n in a range with ALL (r,s) in [0,n-1]^2, plus the 17 "
    "curve orders and random n <= 600 bits with boundary r,s (0,1,n-1,0x7f..,0x80..,0x00ff..). "
    "Each is encoded by sigencode_string/strings/der, compared with an independent big-endian / "
    "strict-DER encoder, decoded back. Decoder cases are byte strings (all strings of length <=2 "
    "and every length 0..2l+2 for the raw decoders, lists of 0-3 strings, every single-edit and "
    "length-field mutation of canonical DER signatures) judged against the reference: raw "
    "accepts iff length == 2*ceil(bitlen(n)/8), DER accepts iff strict two-INTEGER SEQUENCE. "
    "Non-trivial = r or s in {0,n-1}, or top byte 0x00/>=0x80 (DER sign padding / leading zero), "
    "or a decoder input that is not the canonical encoding; distinct by (format,n,r,s) or bytes."
)
ASSUMPTIONS = [
    "n >= 2, 0 <= r,s < n for encoders (outside that the helpers assert by design)",
    "pbt/ref/der.py is a strict DER reader",
]


def olen(n):
    return (n.bit_length() + 7) // 8


def be(v, l):
    return v.to_bytes(l, "big")


def _edge(n, v):
    l = olen(n)
    top = v >> (8 * (l - 1)) if l else 0
    return v in (0, 1, n - 1) or top == 0 or top >= 0x80


def check_enc(ctx, n, r, s, enum=False):
    J = lambda v: v if v.bit_length() < 8000 else hex(v)      # huge values travel as hex strings
    n, r, s = (int(v, 16) if isinstance(v, str) else v for v in (n, r, s))
    l = olen(n)
    case = {"kind": "enc", "n": J(n), "r": J(r), "s": J(s)}
    ctx.case_sample(case)
    ctx.ev(3)
    try:
        a = U.sigencode_string(r, s, n)
        b = U.sigencode_strings(r, s, n)
        c = U.sigencode_der(r, s, n)
        da = U.sigdecode_string(a, n)
        db = U.sigdecode_strings(b, n)
        dc = U.sigdecode_der(c, n)
    except Exception as e:
        ctx.fail("enc-exception/%s" % exc_sig(e), case, repr(e))
        return
    if a != be(r, l) + be(s, l) or len(a) != 2 * l:
        ctx.fail("string/encoding-wrong", case, a.hex())
    if tuple(b) != (be(r, l), be(s, l)):
        ctx.fail("strings/encoding-wrong", case, repr(b))
    if c != R.enc_sig(r, s):
        ctx.fail("der/encoding-not-canonical", case, c.hex())
    for nm, d in (("string", da), ("strings", db), ("der", dc)):
        if tuple(d) != (r, s):
            ctx.fail("%s/roundtrip-differs" % nm, case, repr(d))
    if _edge(n, r) or _edge(n, s):
        ctx.event("enc:edge")
        if enum:
            ctx.nontrivial_enum()
        else:
            ctx.nontrivial(("enc", J(n), J(r), J(s)))
    else:
        ctx.event("enc:plain")


def check_helpers(ctx, n, v):
    """orderlen / number_to_string / string_to_number(_fixedlen)"""
    l = olen(n)
    case = {"kind": "helpers", "n": n, "v": v}
    ctx.ev()
    try:
        ol = U.orderlen(n)
        s = U.number_to_string(v, n)
        back = U.string_to_number(s)
        back2 = U.string_to_number_fixedlen(s, n)
    except Exception as e:
        ctx.fail("helpers-exception/%s" % exc_sig(e), case, repr(e))
        return
    if ol != l:
        ctx.fail("orderlen-wrong", case, "orderlen=%d want %d" % (ol, l))
    if s != be(v, l):
        ctx.fail("number_to_string-wrong", case, s.hex())
    if back != v or back2 != v:
        ctx.fail("string_to_number-wrong", case, "%r %r" % (back, back2))
    # length-exactness of the fixed-length reader
    for bad in (s + b"\x00", s[1:], b""):
        if len(bad) == l:
            continue
        try:
            U.string_to_number_fixedlen(bad, n)
            ctx.fail("fixedlen-accepts-wrong-length", dict(case, bad=bad.hex()), "")
        except AssertionError:
            pass
        except Exception as e:
            if not bad:
                pass  # empty string: ValueError from int() is also a rejection
            else:
                ctx.fail("fixedlen-exception/%s" % type(e).__name__, dict(case, bad=bad.hex()), repr(e))


def _wrap(data, mode):
    if mode == 1:
        return bytearray(data)
    if mode == 2:
        k = len(data) % 4
        if k == 0:
            if len(data) % 3 == 0 and len(data) >= 6:
                return memoryview(bytearray(data)).cast("B", shape=[len(data) // 3, 3])     # 2-D view
            return memoryview(bytearray(data))
        if k == 1:
            return memoryview(bytearray(data)).cast("b")            # signed char view
        if k == 2:
            import array
            return array.array("b", [x - 256 if x > 127 else x for x in data])
        return memoryview(data)
    return data


def check_raw_dec(ctx, n, data, mode=0, enum=False):
    l = olen(n)
    case = {"kind": "rawdec", "n": n, "data": data.hex(), "mode": mode}
    ctx.ev()
    try:
        got = U.sigdecode_string(_wrap(data, mode), n)
        res = "ok"
    except U.MalformedSignature:
        res = "malformed"
    except Exception as e:
        ctx.fail("sigdecode_string/exception/%s" % exc_sig(e), case, repr(e))
        return
    if len(data) == 2 * l:
        want = (int.from_bytes(data[:l], "big"), int.from_bytes(data[l:], "big"))
        if res != "ok" or tuple(got) != want:
            ctx.fail("sigdecode_string/right-length-wrong-result", case, "%s %r" % (res, want))
        ctx.event("rawdec:right-length")
    else:
        if res != "malformed":
            ctx.fail("sigdecode_string/accepted-wrong-length", case, repr(got))
        ctx.event("rawdec:wrong-length")
        if enum:
            ctx.nontrivial_enum()
        else:
            ctx.nontrivial(("rawdec", n, data))


def check_strings_dec(ctx, n, parts, enum=False):
    l = olen(n)
    case = {"kind": "stringsdec", "n": n, "parts": [p.hex() for p in parts]}
    ctx.ev()
    try:
        got = U.sigdecode_strings(list(parts), n)
        res = "ok"
    except U.MalformedSignature:
        res = "malformed"
    except Exception as e:
        ctx.fail("sigdecode_strings/exception/%s" % exc_sig(e), case, repr(e))
        return
    good = len(parts) == 2 and len(parts[0]) == l and len(parts[1]) == l
    if good:
        want = (int.from_bytes(parts[0], "big"), int.from_bytes(parts[1], "big"))
        if res != "ok" or tuple(got) != want:
            ctx.fail("sigdecode_strings/right-shape-wrong-result", case, "%s" % res)
        ctx.event("stringsdec:right-shape")
    else:
        if res != "malformed":
            ctx.fail("sigdecode_strings/accepted-wrong-shape", case, repr(got))
        ctx.event("stringsdec:wrong-shape")
        if enum:
            ctx.nontrivial_enum()
        else:
            ctx.nontrivial(("stringsdec", n, tuple(parts)))


def check_der_dec(ctx, n, data, mode=0, canonical_of=None):
    case = {"kind": "derdec", "n": n, "data": data.hex(), "mode": mode}
    ctx.ev()
    try:
        want = ("ok",) + R.dec_sig(data)
    except R.DERError as e:
        want = ("bad", str(e))
    try:
        got = ("ok",) + tuple(U.sigdecode_der(_wrap(data, mode), n))
    except D.UnexpectedDER:
        got = ("bad",)
    except Exception as e:
        ctx.fail("sigdecode_der/exception/%s" % exc_sig(e), case, "%s; reference %s" % (srepr(e), srepr(want)))
        return
    if want[0] == "ok":
        ctx.event("derdec:canonical")
        if got != want:
            ctx.fail("sigdecode_der/rejected-or-wrong-canonical", case, "%s vs %s" % (srepr(got), srepr(want)))
    else:
        ctx.event("derdec:non-canonical")
        ctx.nontrivial(("derdec", data))
        if got[0] == "ok":
            ctx.fail("sigdecode_der/accepted-non-canonical/%s" % want[1].replace(" ", "-"), case,
                     "decoded %s; reference: %s" % (srepr(got[1:]), srepr(want[1])))


def boundary_vals(n):
    l = olen(n)
    vals = {0, 1, 2, n - 1, n - 2, n // 2, 0x7F, 0x80, 0xFF, 0x100}
    for k in range(1, l + 1):
        vals |= {(1 << (8 * k - 1)) - 1, 1 << (8 * k - 1), (1 << (8 * k)) - 1, 1 << (8 * (k - 1))}
    vals.add(int("00ff" * l, 16) % n)
    vals.add(int("80" + "00" * (l - 1), 16) % n)
    vals.add(int("7f" + "ff" * (l - 1), 16) % n)
    return sorted(v for v in vals if 0 <= v < n)


def st_case():
    orders = st.one_of(
        st.sampled_from([gen.named(c).n for c in gen.NAMED]),
        st.integers(2, 1 << 600),
        st.builds(lambda k, d: max(2, (1 << k) + d), st.integers(1, 600), st.integers(-3, 3)),
    )

    def mk(n, i, j, u, w):
        bv = boundary_vals(n)
        r = bv[i % len(bv)] if i >= 0 else u % n
        s = bv[j % len(bv)] if j >= 0 else w % n
        return {"kind": "enc", "n": n, "r": r, "s": s}

    return st.builds(mk, orders, st.integers(-10, 60), st.integers(-10, 60),
                     st.integers(0, 1 << 600), st.integers(0, 1 << 600))


def _interleaved_jobs():
    n1, n2 = gen.named("NIST256p").n, gen.named("SECP160r1").n
    r1, s1, r2, s2 = n1 - 5, n1 // 2 + 3, 7, n2 - 1

    def a():
        der = U.sigencode_der(r1, s1, n1)
        return [der, U.sigdecode_der(der, n1), U.sigencode_string(r1, s1, n1), U.sigdecode_string(U.sigencode_string(r1, s1, n1), n1),
                U.sigdecode_strings(U.sigencode_strings(r1, s1, n1), n1)]

    def b():
        der = U.sigencode_der(r2, s2, n2)
        return [der, U.sigdecode_der(der, n2), U.sigencode_strings(r2, s2, n2), U.sigdecode_string(U.sigencode_string(r2, s2, n2), n2),
                U.number_to_string(s2, n2), U.string_to_number(U.number_to_string(s2, n2))]
    return {"a": a, "b": b}


def units(tier, seed):
    top = 110 if tier == "quick" else 300
    out = [("small-orders", {"lo": 2, "hi": top, "shard": i, "nshards": 10}) for i in range(10)]
    out.append(("named-boundary", {}))
    out.append(("interleaved", {"stride": 1, "max": 3000 if tier == "quick" else 30000}))
    out.append(("random", {"examples": 3000 if tier == "quick" else 50000}))
    out.append(("raw-decoders", {}))
    out.append(("der-mutations", {"full": tier != "quick"}))
    out.append(("der-random", {"examples": 3000 if tier == "quick" else 50000}))
    out.append(("faults", {"jobset": 'sig', "arg": None, "examples": 40 if tier == "quick" else 1500, "triples": 400 if tier == "quick" else 20000}))
    return out


def run_unit(ctx, name, **kw):
    if name == "faults":
        from . import faults
        faults.run_set(ctx, **kw)
        return
    if name == "interleaved":
        from .purity import interleaved_pure
        interleaved_pure(ctx, "codecs", [U, D], _interleaved_jobs(), kw["stride"], max_schedules=kw["max"])
        return
    if name == "small-orders":
        for n in range(kw["lo"], kw["hi"] + 1):
            if n % kw["nshards"] != kw["shard"]:
                continue
            for r in range(n):
                check_helpers(ctx, n, r)
                for s in range(n):
                    check_enc(ctx, n, r, s, enum=True)
        ctx.sample({"kind": "enc", "n": kw["lo"] + kw["shard"], "all_r_s": True})
        ctx.exhausted("all n in [%d,%d] x all (r,s) in [0,n-1]^2" % (kw["lo"], kw["hi"]))
    elif name == "named-boundary":
        ns = [gen.named(c).n for c in gen.NAMED] + [127, 128, 129, 255, 256, 257, 65535, 65536, 65537,
                                                     (1 << 64) - 1, 1 << 64, (1 << 521) - 1]
        for n in ns:
            bv = boundary_vals(n)
            for r in bv:
                check_helpers(ctx, n, r)
                for s in bv:
                    check_enc(ctx, n, r, s)
            ctx.sample({"kind": "enc", "n": n, "r": bv[-1], "s": bv[len(bv) // 2]})
    elif name == "random":
        def body(c, case):
            check_enc(c, case["n"], case["r"], case["s"])
            check_helpers(c, case["n"], case["r"])
            c.sample(case)
        run_hypothesis(ctx, "enc", st_case(), body, kw["examples"])
    elif name == "raw-decoders":
        # l = 1: n in [2,255]; l = 2: n in [256, 65535]
        for n in (2, 3, 29, 127, 128, 255):
            for L in range(0, 3):
                for t in itertools.product(range(256), repeat=L):
                    check_raw_dec(ctx, n, bytes(t), enum=True)
            for L in range(3, 6):
                check_raw_dec(ctx, n, b"\x01" * L)
        ctx.exhausted("sigdecode_string: all strings of length <=2 for 6 one-byte orders")
        for n in (256, 4159, 65535, 65537) + tuple(gen.named(c).n for c in gen.NAMED):
            l = olen(n)
            for L in range(0, 2 * l + 3):
                for fill in (b"\x00", b"\x7f", b"\xff"):
                    for mode in (0, 1, 2):
                        check_raw_dec(ctx, n, fill * L, mode)
            for L in (2 * l - 1, 2 * l, 2 * l + 1, l, 4 * l):
                check_raw_dec(ctx, n, bytes(range(7, 7 + L)) if L < 240 else b"\x09" * L)
        # string pairs
        for n in (29, 255, 256, 65537, gen.named("NIST256p").n, gen.named("NIST521p").n):
            l = olen(n)
            lens = sorted({0, 1, l - 1, l, l + 1, 2 * l})
            strs = [b"\x05" * k for k in lens if k >= 0]
            for cnt in range(0, 4):
                for parts in itertools.product(strs, repeat=cnt):
                    check_strings_dec(ctx, n, parts, enum=True)
        ctx.sample({"kind": "stringsdec", "n": 256, "parts": ["0505", "05"]})
    elif name == "der-mutations":
        seeds = []
        for n in (29, 65537, gen.named("SECP112r1").n, gen.named("NIST256p").n, gen.named("NIST521p").n):
            for r, s in ((1, 1), (n - 1, n - 1), (0x80, 0x7F), (n // 3, n // 5), (0, 0)):
                seeds.append((n, R.enc_sig(r % n, s % n)))
        big = (1 << 1100) - 1
        seeds.append((big, R.enc_sig(big - 1, big // 3)))          # SEQUENCE body of 280 bytes: length 82 01 18
        giant = 256 ** 33000 - 189                                 # INTEGERs of 33000 bytes: three-octet lengths
        check_enc(ctx, giant, giant - 1, giant - 2)
        check_enc(ctx, giant, 1, giant // 2)
        seen = set()
        for n, seed in seeds:
            check_der_dec(ctx, n, seed)
            muts = itertools.chain(gen.length_mutations(seed),
                                   gen.mutations(seed, full_subst=kw["full"] and len(seed) < 40))
            for kind, m in muts:
                if m in seen:
                    continue
                seen.add(m)
                ctx.event("mut:" + kind)
                check_der_dec(ctx, n, m, mode=len(seen) % 3)
            ctx.sample({"kind": "derdec", "n": n, "seed": seed.hex()})
    elif name == "der-random":
        ints = st.one_of(st.integers(0, 1 << 530), st.integers(0, 300),
                         st.sampled_from([0, 127, 128, 255, 256, 2 ** 255, 2 ** 256 - 1]))
        intenc = st.one_of(
            ints.map(R.enc_int),
            ints.map(lambda v: R.tlv(0x02, b"\x00" + R.enc_int(v)[2:] if v < 2 ** 1000 else b"")),
            ints.map(lambda v: R.enc_int(-v - 1)),
            st.binary(max_size=6).map(lambda b: R.tlv(0x02, b)),
            st.binary(max_size=8),
        )
        strat = st.tuples(st.lists(intenc, min_size=0, max_size=3), st.binary(max_size=3),
                          st.sampled_from([0x30, 0x31, 0x10]), st.integers(0, 2))

        def body(c, v):
            parts, trail, tag, mode = v
            data = R.tlv(tag, b"".join(parts)) + trail
            check_der_dec(c, 1 << 521, data, mode)
            c.sample({"kind": "derdec", "data": data.hex()})
        run_hypothesis(ctx, "der", strat, body, kw["examples"])
    else:
        raise ValueError(name)


def replay(ctx, case):
    if case.get("kind") == "fault-history":
        from . import faults
        faults.replay(ctx, case)
        return
    k = case["kind"]
    if k == "interleaved":
        from .purity import interleaved_pure
        interleaved_pure(ctx, "codecs", [U, D], _interleaved_jobs(), 1, max_schedules=3000)
        return
    if k == "enc":
        check_enc(ctx, case["n"], case["r"], case["s"])
    elif k == "helpers":
        check_helpers(ctx, case["n"], case["v"])
    elif k == "rawdec":
        check_raw_dec(ctx, case["n"], bytes.fromhex(case["data"]), case.get("mode", 0))
    elif k == "stringsdec":
        check_strings_dec(ctx, case["n"], [bytes.fromhex(p) for p in case["parts"]])
    elif k == "derdec":
        check_der_dec(ctx, case["n"], bytes.fromhex(case["data"]), case.get("mode", 0))
