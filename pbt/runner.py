"""Common runner: tiers, seeding, 16-way sharding, failure bucketing,
known-finding matching, replay files and evidence.

usage:  python -m pbt.runner <Cxx> <quick|thorough>
        python -m pbt.runner <Cxx> --replay <file.json>

exit codes: 0 property held on everything explored (KNOWN-FINDING lines are
allowed), 1 at least one VIOLATION line, 2 harness error (never a verdict).
"""
from __future__ import annotations

import glob
import hashlib
import importlib
import json
import multiprocessing as mp
import os
import sys
import time
import traceback
from collections import Counter

from . import VERIF_DIR, REPO_DIR

NPROC = int(os.environ.get("VERIF_NPROC", "16"))
MAX_SAMPLES = 10


def srepr(obj, limit=600):
    """repr that survives integers beyond the interpreter's decimal conversion limit"""
    try:
        r = repr(obj)
    except ValueError:
        if isinstance(obj, int):
            r = hex(obj)
        elif isinstance(obj, (tuple, list)):
            r = "(" + ", ".join(srepr(v, limit) for v in obj) + ")"
        elif isinstance(obj, dict):
            r = "{" + ", ".join("%s: %s" % (srepr(k), srepr(v, limit)) for k, v in obj.items()) + "}"
        else:
            r = "<%s>" % type(obj).__name__
    return r if len(r) <= limit else r[:limit] + "..."


def hash64(obj) -> int:
    return int.from_bytes(
        hashlib.blake2b(srepr(obj, 1 << 30).encode(), digest_size=8).digest(), "big"
    )


def derive_seed(seed: int, *labels) -> int:
    h = hashlib.blake2b(repr((seed,) + labels).encode(), digest_size=8)
    return int.from_bytes(h.digest(), "big")


def exc_sig(e: BaseException) -> str:
    """exception type + innermost frame inside the library (file:function)."""
    tb = e.__traceback__
    inner = None
    while tb is not None:
        fn = tb.tb_frame.f_code.co_filename
        if os.sep + "ecdsa" + os.sep in fn and "/pbt/" not in fn:
            inner = "%s:%s" % (
                os.path.basename(fn),
                tb.tb_frame.f_code.co_name,
            )
        tb = tb.tb_next
    return "%s@%s" % (type(e).__name__, inner or "?")


# --------------------------------------------------------------------------
# known findings


def load_known(prop):
    """sig -> description for 'finding:' lines of this property."""
    known = {}
    path = os.path.join(VERIF_DIR, "KNOWN_FINDINGS.txt")
    if not os.path.exists(path):
        return known
    with open(path) as f:
        for line in f:
            line = line.strip()
            if not line.startswith("finding:"):
                continue
            toks = line.split()
            p = s = None
            for t in toks[1:]:
                if t.startswith("property=") and p is None:
                    p = t[len("property="):]
                elif t.startswith("sig=") and s is None:
                    s = t[len("sig="):]
            if p == prop and s:
                desc = line[len("finding:"):].strip()
                desc = " ".join(t for t in desc.split(" ")
                                if not t.startswith("property="))
                known[s] = desc
    return known


# --------------------------------------------------------------------------
# per-unit context


class Ctx:
    def __init__(self, prop, tier, seed, unit="", known=None):
        self.prop = prop
        self.tier = tier
        self.seed = seed
        self.unit = unit
        self.known = known if known is not None else load_known(prop)
        self.evaluations = 0
        self.counters = Counter()
        self.nt_hashes = set()
        self.nt_enum = 0
        self.samples = []
        self.case_samples = []
        self._case_calls = 0
        self.failures = {}  # sig -> dict(count, case, detail)
        self.exhaustive = []  # names of finite spaces fully enumerated
        self.notes = []

    # -- counting ----------------------------------------------------------
    def ev(self, n=1):
        self.evaluations += n

    def event(self, label, n=1):
        self.counters[label] += n

    def nontrivial(self, key):
        """count a non-trivial case, distinct by 64-bit hash of key"""
        self.nt_hashes.add(hash64(key))

    def nontrivial_enum(self, n=1):
        """count non-trivial cases that are distinct by construction
        (enumeration without repetition)"""
        self.nt_enum += n

    def sample(self, obj, force=False):
        if len(self.samples) < 3 or (force and len(self.samples) < 6):
            self.samples.append(obj)

    def case_sample(self, case):
        """keep a few literal cases of an enumeration (the 1st, 1000th, 100000th)"""
        self._case_calls += 1
        if self._case_calls in (1, 1000, 100000):
            self.case_samples.append(case)

    def exhausted(self, name):
        self.exhaustive.append(name)

    # -- failures ----------------------------------------------------------
    def fail(self, sig, case, detail=""):
        sig = sig.replace(" ", "_")
        f = self.failures.get(sig)
        if f is None:
            self.failures[sig] = {
                "count": 1,
                "case": case,
                "detail": str(detail)[:2000],
                "unit": self.unit,
            }
        else:
            f["count"] += 1

    def is_known(self, sig):
        return sig.replace(" ", "_") in self.known

    def export(self):
        return {
            "unit": self.unit,
            "evaluations": self.evaluations,
            "counters": dict(self.counters),
            "nt_hashes": self.nt_hashes,
            "nt_enum": self.nt_enum,
            "samples": self.samples,
            "case_samples": self.case_samples,
            "failures": self.failures,
            "exhaustive": self.exhaustive,
            "notes": self.notes,
        }


# --------------------------------------------------------------------------
# hypothesis helper: collect failures first, shrink each new signature after


def run_hypothesis(ctx, label, strategy, body, max_examples, shrink=True):
    """Run ``body(ctx, value)`` over ``strategy``.

    ``body`` records failures with ctx.fail(sig, case, ...) instead of
    raising, so one shallow defect does not hide the rest.  Afterwards each
    new (not known) signature found by this call is shrunk: the same test is
    re-run with the same seed and a body that raises only for that
    signature; hypothesis' final replay of the minimal example is what ends
    up in the replay file.
    """
    import hypothesis
    from hypothesis import HealthCheck, Phase, given, settings

    sd = derive_seed(ctx.seed, ctx.prop, ctx.unit, label)
    before = set(ctx.failures)

    common = dict(
        database=None,
        deadline=None,
        derandomize=False,
        report_multiple_bugs=False,
        suppress_health_check=list(HealthCheck),
    )

    @hypothesis.seed(sd)
    @settings(max_examples=max_examples, phases=[Phase.generate], **common)
    @given(strategy)
    def collect(v):
        body(ctx, v)

    collect()

    if not shrink:
        return
    for sig in [s for s in ctx.failures if s not in before]:
        if ctx.is_known(sig):
            continue

        class _Target(Exception):
            pass

        last = {}

        def raising(v, sig=sig, last=last):
            sub = Ctx(ctx.prop, ctx.tier, ctx.seed, ctx.unit, ctx.known)
            body(sub, v)
            if sig in sub.failures:
                last["case"] = sub.failures[sig]["case"]
                last["detail"] = sub.failures[sig]["detail"]
                raise _Target()

        @hypothesis.seed(sd)
        @settings(
            max_examples=max_examples,
            phases=[Phase.generate, Phase.shrink],
            **common
        )
        @given(strategy)
        def shrinkit(v):
            raising(v)

        try:
            shrinkit()
        except _Target:
            pass
        except Exception:  # hypothesis wraps/flaky: keep unshrunk case
            pass
        if "case" in last:
            ctx.failures[sig]["case"] = last["case"]
            ctx.failures[sig]["detail"] = last["detail"]
            ctx.failures[sig]["shrunk"] = True


def run_machine(ctx, label, make_machine, max_examples, step_count):
    """Run a hypothesis RuleBasedStateMachine in collect-then-shrink mode.

    ``make_machine(sink)`` returns a machine class whose rules call
    ``sink(sig, case, detail)`` when the real object and the model disagree
    (case must hold the whole history so that it can be replayed without
    hypothesis) and then stop acting (the machine marks itself dead).  In the
    collect pass the sink records; in the shrink pass it raises for one
    signature so that hypothesis minimises the history.
    """
    import hypothesis
    from hypothesis import HealthCheck, Phase, settings
    from hypothesis.stateful import run_state_machine_as_test

    sd = derive_seed(ctx.seed, ctx.prop, ctx.unit, label)
    before = set(ctx.failures)
    common = dict(
        database=None,
        deadline=None,
        derandomize=False,
        report_multiple_bugs=False,
        suppress_health_check=list(HealthCheck),
        stateful_step_count=step_count,
    )

    def collect(sig, case, detail):
        ctx.fail(sig, case, detail)

    M = make_machine(collect)
    run_state_machine_as_test(
        hypothesis.seed(sd)(M),
        settings=settings(
            max_examples=max_examples, phases=[Phase.generate], **common
        ),
    )
    for sig in [s for s in ctx.failures if s not in before]:
        if ctx.is_known(sig):
            continue

        class _Target(Exception):
            pass

        last = {}

        def raising(s, case, detail, sig=sig, last=last):
            if s.replace(" ", "_") == sig:
                last["case"] = case
                last["detail"] = detail
                raise _Target()

        M2 = make_machine(raising)
        try:
            run_state_machine_as_test(
                hypothesis.seed(sd)(M2),
                settings=settings(
                    max_examples=max_examples,
                    phases=[Phase.generate, Phase.shrink],
                    **common
                ),
            )
        except _Target:
            pass
        except Exception:
            pass
        if "case" in last:
            ctx.failures[sig]["case"] = last["case"]
            ctx.failures[sig]["detail"] = str(last["detail"])[:2000]
            ctx.failures[sig]["shrunk"] = True


# --------------------------------------------------------------------------
# unit execution in worker processes


def _run_unit(args):
    prop, tier, seed, idx, name, kw = args
    t0 = time.time()
    try:
        mod = importlib.import_module("pbt.checks." + prop.lower())
        ctx = Ctx(prop, tier, seed, unit=name)
        mod.run_unit(ctx, name, **kw)
        out = ctx.export()
        out["idx"] = idx
        out["wall_s"] = time.time() - t0
        return out
    except BaseException:
        return {
            "idx": idx,
            "unit": name,
            "harness_error": traceback.format_exc(),
            "wall_s": time.time() - t0,
        }


def _validate_evidence(ev):
    try:
        import jsonschema
    except Exception:
        jsonschema = None
    schema_path = "/root/.vp/EVIDENCE.schema.json"
    if not os.path.exists(schema_path):
        schema_path = os.path.join(VERIF_DIR, "pbt", "EVIDENCE.schema.json")
    if jsonschema is not None and os.path.exists(schema_path):
        with open(schema_path) as f:
            jsonschema.validate(ev, json.load(f))
        return
    cov = ev["coverage"]
    assert isinstance(ev["seed"], int) and ev["tier"] in ("quick", "thorough")
    assert cov["evaluations"] >= 1 and cov["distinct_nontrivial"] >= 2
    assert isinstance(cov["rule"], str) and len(cov["samples"]) >= 1


def _jsonable(o):
    if isinstance(o, (bytes, bytearray, memoryview)):
        return bytes(o).hex()
    if isinstance(o, (set, frozenset, tuple)):
        return list(o)
    return repr(o)


def main(argv=None):
    argv = list(sys.argv[1:] if argv is None else argv)
    if len(argv) < 2:
        print(__doc__)
        return 2
    prop = argv[0].upper()
    seed = int(os.environ.get("VERIF_SEED", "1") or "1")
    t0 = time.time()
    try:
        mod = importlib.import_module("pbt.checks." + prop.lower())
    except Exception:
        traceback.print_exc()
        print("HARNESS-ERROR property=%s cannot import check" % prop)
        return 2

    known = load_known(prop)

    if argv[1] == "--replay":
        path = argv[2]
        with open(path) as f:
            rec = json.load(f)
        ctx = Ctx(prop, "quick", seed, unit="replay", known=known)
        try:
            mod.replay(ctx, rec["case"])
        except Exception:
            traceback.print_exc()
            print("HARNESS-ERROR property=%s replay crashed" % prop)
            return 2
        bad = 0
        for sig, f in sorted(ctx.failures.items()):
            if sig in known:
                print("KNOWN-FINDING: property=%s %s" % (prop, known[sig]))
            else:
                bad += 1
                print("  failure sig=%s detail=%s" % (sig, f["detail"]))
        if bad:
            print("VIOLATION property=%s replay=%s" % (prop, path))
            return 1
        print("replay: no violation reproduced (%d evaluations)"
              % ctx.evaluations)
        return 0

    tier = argv[1]
    if tier not in ("quick", "thorough"):
        print("tier must be quick or thorough")
        return 2

    units = list(mod.units(tier, seed))
    # regression replays (shrunk failures of defects that were fixed, and
    # hand-written boundary cases) run first, in the parent
    results = []
    reg = Ctx(prop, tier, seed, unit="regress", known=known)
    try:
        for path in sorted(
            glob.glob(os.path.join(VERIF_DIR, "regress", prop, "*.json"))
        ):
            with open(path) as f:
                rec = json.load(f)
            mod.replay(reg, rec["case"])
            reg.event("regress-file")
    except Exception:
        traceback.print_exc()
        print("HARNESS-ERROR property=%s regression replay crashed" % prop)
        return 2
    r = reg.export()
    r["idx"] = -1
    r["wall_s"] = 0.0
    results.append(r)

    jobs = [
        (prop, tier, seed, i, name, kw) for i, (name, kw) in enumerate(units)
    ]
    nproc = max(1, min(NPROC, len(jobs)))
    mpctx = mp.get_context("fork")
    with mpctx.Pool(nproc, maxtasksperchild=1) as pool:
        for out in pool.imap_unordered(_run_unit, jobs, chunksize=1):
            results.append(out)
    results.sort(key=lambda r: r["idx"])

    herr = [r for r in results if "harness_error" in r]
    if herr:
        for r in herr:
            print("HARNESS-ERROR property=%s unit=%s" % (prop, r["unit"]))
            print(r["harness_error"])
        return 2

    evaluations = sum(r["evaluations"] for r in results)
    counters = Counter()
    hashes = set()
    nt_enum = 0
    samples = []
    exhaustive = []
    failures = {}
    unit_walls = {}
    for r in results:
        counters.update(r["counters"])
        hashes |= r["nt_hashes"]
        nt_enum += r["nt_enum"]
        exhaustive += r["exhaustive"]
        unit_walls["%s#%d" % (r["unit"], r["idx"])] = round(r["wall_s"], 2)
        for sig, f in r["failures"].items():
            if sig in failures:
                failures[sig]["count"] += f["count"]
            else:
                failures[sig] = dict(f)
    # samples: literal cases first, then descriptors of enumerated subspaces;
    # round-robin over units for variety
    for key, limit in (("case_samples", 8), ("samples", MAX_SAMPLES + 4)):
        k = 0
        while len(samples) < limit:
            took = False
            for r in results:
                lst = r.get(key, [])
                if k < len(lst) and len(samples) < limit:
                    samples.append(lst[k])
                    took = True
            if not took:
                break
            k += 1

    violations = 0
    excluded_known = 0
    lines = []
    for sig in sorted(failures):
        f = failures[sig]
        if sig in known:
            excluded_known += f["count"]
            lines.append("KNOWN-FINDING: property=%s %s [%d cases this run]"
                         % (prop, known[sig], f["count"]))
            continue
        violations += 1
        # runs against a scratch copy of the repository (tools/seeded.py) keep their replay files
        # next to their evidence, away from the ones that describe /repo
        rbase = os.path.dirname(os.environ["VERIF_EVIDENCE_DIR"].rstrip("/")) if os.environ.get("VERIF_EVIDENCE_DIR") else VERIF_DIR
        rdir = os.path.join(rbase, "replays", prop)
        os.makedirs(rdir, exist_ok=True)
        name = hashlib.blake2b(sig.encode(), digest_size=6).hexdigest()
        rpath = os.path.join("replays", prop, name + ".json")
        if rbase != VERIF_DIR:
            rpath = os.path.join(rbase, rpath)
        with open(os.path.join(rbase, "replays", prop, name + ".json"), "w") as fh:
            json.dump(
                {
                    "property": prop,
                    "sig": sig,
                    "case": f["case"],
                    "detail": f["detail"],
                    "count_this_run": f["count"],
                    "unit": f.get("unit"),
                    "tier": tier,
                    "seed": seed,
                },
                fh,
                indent=1,
                default=_jsonable,
            )
        lines.append("  failure sig=%s count=%d detail=%s"
                     % (sig, f["count"], f["detail"][:300]))
        lines.append("VIOLATION property=%s replay=%s" % (prop, rpath))

    all_exh = bool(exhaustive) and getattr(mod, "EXHAUSTIVE_ONLY", False)
    wall = time.time() - t0
    distinct_nt = len(hashes) + nt_enum
    evidence = {
        "property_id": prop,
        "tier": tier,
        "seed": seed,
        "level": "exploration",
        "coverage": {
            "evaluations": evaluations,
            "distinct_nontrivial": distinct_nt,
            "rule": mod.RULE,
            "samples": samples,
            "exhaustive": all_exh,
            "exhaustive_subspaces": sorted(set(exhaustive)),
            "classes": dict(sorted(counters.items())),
            "excluded_known": excluded_known,
            "failure_signatures": {
                s: failures[s]["count"] for s in sorted(failures)
            },
            "units": len(units),
            "unit_wall_s": unit_walls,
            "repo": REPO_DIR,
        },
        "assumptions": list(getattr(mod, "ASSUMPTIONS", [])),
        "wall_s": round(wall, 2),
        "violations": violations,
    }
    evidence = json.loads(json.dumps(evidence, default=_jsonable))
    try:
        _validate_evidence(evidence)
    except Exception as e:
        print("HARNESS-ERROR property=%s evidence does not validate: %s"
              % (prop, e))
        print(json.dumps(evidence["coverage"], indent=1)[:3000])
        return 2
    # VERIF_EVIDENCE_DIR is only used by tools/seeded.py so that runs against a
    # patched scratch copy do not overwrite the evidence about /repo
    edir = os.environ.get("VERIF_EVIDENCE_DIR") or os.path.join(VERIF_DIR, "evidence")
    os.makedirs(edir, exist_ok=True)
    with open(os.path.join(edir, prop + ".json"), "w") as fh:
        json.dump(evidence, fh, indent=1, sort_keys=True)
        fh.write("\n")

    print("%s %s seed=%d: %d evaluations, %d distinct non-trivial, "
          "%d units, %.1fs" % (prop, tier, seed, evaluations, distinct_nt,
                               len(units), wall))
    for ln in lines:
        print(ln)
    if violations:
        return 1
    print("OK property=%s" % prop)
    return 0


if __name__ == "__main__":
    sys.exit(main())
