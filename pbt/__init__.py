"""Property-based testing / fuzzing machinery for warner/python-ecdsa.

Importing this package puts the repository under test on sys.path
(``$VERIF_REPO/src``, default ``/repo/src``) so that ``import ecdsa`` always
resolves to the current working tree, never to an installed copy.
"""
import os
import sys

VERIF_DIR = os.path.dirname(os.path.dirname(os.path.abspath(__file__)))
REPO_DIR = os.environ.get("VERIF_REPO", "/repo")
_src = os.path.join(REPO_DIR, "src")
if _src not in sys.path:
    sys.path.insert(0, _src)
_deps = os.path.join(VERIF_DIR, ".deps")
if os.path.isdir(_deps) and _deps not in sys.path:
    sys.path.append(_deps)
sys.dont_write_bytecode = True
