#!/bin/bash
# Offline setup: third-party helpers go to /verif/.deps (never into /repo).
cd "$(dirname "$0")" || exit 2
PY=/venv/bin/python
WH=/opt/veriftools/wheels
mkdir -p .deps evidence
need=""
$PY -c "import hypothesis" 2>/dev/null || need="$need hypothesis"
$PY -c "import six" 2>/dev/null || need="$need six"
PYTHONPATH=.deps $PY -c "import jsonschema" 2>/dev/null || need="$need jsonschema"
PYTHONPATH=.deps $PY -c "import atheris" 2>/dev/null || need="$need atheris"
if [ -n "$need" ]; then
  $PY -m pip install --quiet --no-index --find-links "$WH" --target .deps $need 2>&1 | grep -v -i 'warning\|conda' || true
fi
PYTHONPATH=.deps:/repo/src $PY - <<'PY'
import hypothesis, six, ecdsa
try:
    import jsonschema
except Exception as e:
    print("note: jsonschema unavailable, built-in evidence validation is used:", e)
try:
    import atheris
except Exception as e:
    print("note: atheris unavailable, coverage-guided tiers are skipped:", e)
print("setup ok: hypothesis", hypothesis.__version__)
PY
